import PppModel.Auto
import PppModel.Spec.V1
import PppModel.Lemmas.Utf8
import PppModel.Lemmas.V1Accept
import PppModel.Lemmas.V1NoPanic
import PppModel.Lemmas.V2NoPanic

/-!
# C15 — v1 header views reconstruct the header text

A *well-formed header* is an `h : V1.Header` whose text and decoded addresses are
related by the line grammar: `Spec.V1.Line V1.ip6Model h.header h.addresses`.  Every
header returned by `V1.parseBytes` / `V1.parseStr` is well-formed
(`wellFormed_of_parseBytes`, `wellFormed_of_parseStr`; the bridge is
`window_is_window` + `V1.line_of_parseHeader_ok`).

For every well-formed header:

* `protocol_matches` — the reported protocol keyword is the second field of the line
  and matches the kind of the decoded addresses;
* `reassemble`, `reassemble_sep` — `PROXY`, a space, the protocol, the (separated)
  address text and CR LF re-assemble to the header text;
* `addressesStr_tcp4`, `addressesStr_tcp6`, `addressesStr_unknown`, `addressesStr_cases`
  — what the address text is, case by case;
* `display_is_header`, `owned_views` — `Display` prints the header text, `to_owned`
  keeps every view (`rfl` in the model, ownership is erased);
* `addressesStr_no_panic` — the accessor `addresses_str` (a `usize` subtraction and two
  `&str` slices, each of which panics off a char boundary) returns normally, with the
  value of the pure model.

Each statement is then specialised to `V1.parseBytes x = .ok h` and `V1.parseStr x = .ok h`.
-/

namespace C15

open V1

/-! ## List bookkeeping -/

/-- Cutting `suf` off the end and `pre` off the front leaves the middle. -/
theorem slice_mid (pre mid suf : B) :
    ((pre ++ mid ++ suf).take ((pre ++ mid ++ suf).length - suf.length)).drop pre.length = mid := by
  have e : (pre ++ mid ++ suf).length - suf.length = (pre ++ mid).length := by
    simp only [List.length_append]; omega
  rw [e, List.take_left, List.drop_left]

theorem PROXY_SP_length (p : B) : (PROXY ++ [SP] ++ p).length = PROXY.length + 1 + p.length := by
  simp only [List.length_append, List.length_cons, List.length_nil]

/-! ## The window handed to `parse_header` is a window -/

/-- The first CR of a prefix is the first CR of the whole. -/
theorem firstCR_of_take {x : B} {n i : Nat} (h : firstCR (x.take n) = some i) : firstCR x = some i := by
  have := firstCR_append_of_some (x.drop n) h
  rwa [List.take_append_drop] at this

/-- What `parseBytes` / `parseStr` hand to `parseHeader` has nothing after the byte that
follows its first CR. -/
theorem window_is_window {x : B} {n : Nat} (h : windowLength x = some n) : IsWindow (x.take n) := by
  intro i hi
  have hx := firstCR_of_take hi
  simp only [windowLength, hx, Option.some.injEq, CRLF, List.length_cons, List.length_nil] at h
  have : (x.take n).length ≤ n := by simp only [List.length_take]; omega
  omega

/-! ## Accepted headers are well-formed -/

/-- What `parseBytes` did on a success. -/
theorem parseBytes_ok_inv {x : B} {h : Header} (hp : parseBytes x = .ok h) :
    ∃ n, windowLength x = some n ∧ Utf8.valid (x.take n) = true ∧ parseHeader (x.take n) = .ok h := by
  unfold parseBytes at hp
  cases hw : windowLength x with
  | none => rw [hw] at hp; cases hp
  | some n =>
    rw [hw] at hp
    simp only at hp
    cases hv : Utf8.valid (x.take n) with
    | false => simp [hv] at hp
    | true =>
      simp only [hv, Bool.not_true, Bool.false_eq_true, if_false] at hp
      cases hh : parseHeader (x.take n) with
      | error e => rw [hh] at hp; cases hp
      | ok h' =>
        rw [hh] at hp
        simp only [Except.ok.injEq] at hp
        subst hp
        exact ⟨n, rfl, hv, hh⟩

/-- What `parseStr` did on a success. -/
theorem parseStr_ok_inv {x : B} {h : Header} (hp : parseStr x = .ok h) :
    ∃ n, windowLength x = some n ∧ Utf8.isCharBoundary x n = true ∧ parseHeader (x.take n) = .ok h := by
  unfold parseStr at hp
  cases hw : windowLength x with
  | none => rw [hw] at hp; cases hp
  | some n =>
    rw [hw] at hp
    simp only at hp
    cases hb : Utf8.isCharBoundary x n with
    | false => simp [hb] at hp
    | true =>
      simp only [hb, Bool.not_true, Bool.false_eq_true, if_false] at hp
      exact ⟨n, rfl, hb, hp⟩

/-- The header accepted from a window is that window, and it is a well-formed line. -/
theorem wellFormed_of_parseHeader {x : B} {n : Nat} {h : Header} (hw : windowLength x = some n)
    (hok : parseHeader (x.take n) = .ok h) :
    h.header = x.take n ∧ Spec.V1.Line ip6Model h.header h.addresses := by
  obtain ⟨e, -, hl⟩ := line_of_parseHeader_ok (window_is_window hw) hok
  exact ⟨e, e ▸ hl⟩

theorem wellFormed_of_parseBytes {x : B} {h : Header} (hp : parseBytes x = .ok h) :
    Spec.V1.Line ip6Model h.header h.addresses := by
  obtain ⟨n, hw, -, hok⟩ := parseBytes_ok_inv hp
  exact (wellFormed_of_parseHeader hw hok).2

theorem wellFormed_of_parseStr {x : B} {h : Header} (hp : parseStr x = .ok h) :
    Spec.V1.Line ip6Model h.header h.addresses := by
  obtain ⟨n, hw, -, hok⟩ := parseStr_ok_inv hp
  exact (wellFormed_of_parseHeader hw hok).2

/-- The header text returned by `parseBytes` is valid UTF-8 (its own check). -/
theorem valid_of_parseBytes {x : B} {h : Header} (hp : parseBytes x = .ok h) :
    Utf8.valid h.header = true := by
  obtain ⟨n, hw, hv, hok⟩ := parseBytes_ok_inv hp
  rw [(wellFormed_of_parseHeader hw hok).1]; exact hv

/-- The header text returned by `parseStr` on a `&str` is valid UTF-8: it is the prefix
of the input up to a char boundary. -/
theorem valid_of_parseStr {x : B} {h : Header} (hx : Utf8.valid x = true) (hp : parseStr x = .ok h) :
    Utf8.valid h.header = true := by
  obtain ⟨n, hw, hb, hok⟩ := parseStr_ok_inv hp
  rw [(wellFormed_of_parseHeader hw hok).1, Utf8.valid_take_iff_boundary x hx n (windowLength_le hw)]
  exact hb

/-! ## The shape of a well-formed header -/

/-- The protocol keyword matches the kind of the decoded addresses (by definition). -/
theorem protocol_eq (h : Header) :
    h.protocol = (match h.addresses with | .unknown => UNKNOWN | .tcp4 _ => TCP4 | .tcp6 _ => TCP6) := by
  cases h with
  | mk hd ad => cases ad <;> rfl

/-- A well-formed header is `PROXY`, a space, *its own* protocol keyword, then either
nothing or a space and CR-free text, then CR LF. -/
theorem shape (h : Header) (hl : Spec.V1.Line ip6Model h.header h.addresses) :
    ∃ between, h.header = PROXY ++ [SP] ++ h.protocol ++ between ++ CRLF ∧
      (between = [] ∨ between.head? = some SP) ∧ crFree between := by
  obtain ⟨hd, ad⟩ := h
  simp only at hl
  cases hl with
  | unknown tail h1 h2 => exact ⟨tail, rfl, h1, h2⟩
  | tcp4 sa da sp dp a b p q hsa hda hsp hdp =>
    refine ⟨[SP] ++ sa ++ [SP] ++ da ++ [SP] ++ sp ++ [SP] ++ dp, ?_, Or.inr rfl, ?_⟩
    · show PROXY ++ [SP] ++ TCP4 ++ [SP] ++ sa ++ [SP] ++ da ++ [SP] ++ sp ++ [SP] ++ dp ++ [CR, LF] =
        PROXY ++ [SP] ++ TCP4 ++ ([SP] ++ sa ++ [SP] ++ da ++ [SP] ++ sp ++ [SP] ++ dp) ++ [CR, LF]
      simp only [List.append_assoc]
    · simp only [crFree_append]
      exact ⟨⟨⟨⟨⟨⟨⟨crFree_SP, (ipv4Text_sepFree hsa).crFree⟩, crFree_SP⟩, (ipv4Text_sepFree hda).crFree⟩,
        crFree_SP⟩, (portText_sepFree hsp).crFree⟩, crFree_SP⟩, (portText_sepFree hdp).crFree⟩
  | tcp6 sa da sp dp a b p q hsa hda hsp hdp =>
    refine ⟨[SP] ++ sa ++ [SP] ++ da ++ [SP] ++ sp ++ [SP] ++ dp, ?_, Or.inr rfl, ?_⟩
    · show PROXY ++ [SP] ++ TCP6 ++ [SP] ++ sa ++ [SP] ++ da ++ [SP] ++ sp ++ [SP] ++ dp ++ [CR, LF] =
        PROXY ++ [SP] ++ TCP6 ++ ([SP] ++ sa ++ [SP] ++ da ++ [SP] ++ sp ++ [SP] ++ dp) ++ [CR, LF]
      simp only [List.append_assoc]
    · simp only [crFree_append]
      exact ⟨⟨⟨⟨⟨⟨⟨crFree_SP, hsa.2.crFree⟩, crFree_SP⟩, hda.2.crFree⟩,
        crFree_SP⟩, (portText_sepFree hsp).crFree⟩, crFree_SP⟩, (portText_sepFree hdp).crFree⟩

/-! ## `addresses_str` on a header of that shape -/

/-- The slice `header[start..end]` of `addresses_str` is what lies between the protocol
keyword and CR LF. -/
theorem slice_of_shape {h : Header} {between : B}
    (e : h.header = PROXY ++ [SP] ++ h.protocol ++ between ++ CRLF) :
    (h.header.take (h.header.length - CRLF.length)).drop (PROXY.length + 1 + h.protocol.length) =
      between := by
  rw [← PROXY_SP_length, e]
  exact slice_mid _ _ _

theorem addressesStr_of_shape {h : Header} {between : B}
    (e : h.header = PROXY ++ [SP] ++ h.protocol ++ between ++ CRLF) :
    h.addressesStr = (if between.head? = some SP then between.drop 1 else between) := by
  unfold Header.addressesStr
  simp only [slice_of_shape e, beq_iff_eq]

/-! ## The statements of C15 -/

/-- **C15 (protocol).** The reported protocol keyword is the second field of the line —
it follows `PROXY` and a space and is followed by a space or by the CR — and it matches
the kind of the decoded addresses. -/
theorem protocol_matches (h : Header) (hl : Spec.V1.Line ip6Model h.header h.addresses) :
    ∃ rest, h.header = PROXY ++ [SP] ++ h.protocol ++ rest ∧
      (rest.head? = some SP ∨ rest.head? = some CR) ∧
      h.protocol = (match h.addresses with | .unknown => UNKNOWN | .tcp4 _ => TCP4 | .tcp6 _ => TCP6) := by
  obtain ⟨between, e, hb, -⟩ := shape h hl
  refine ⟨between ++ CRLF, by rw [e, List.append_assoc], ?_, protocol_eq h⟩
  rcases hb with rfl | hb
  · right; rfl
  · left
    cases between with
    | nil => cases hb
    | cons c t => exact hb

/-- **C15 (re-assembly).** The header text is `PROXY`, a space, the protocol keyword, a
middle part and CR LF; the middle part is empty or starts with a space; and
`addresses_str` is the middle part without that space. -/
theorem reassemble (h : Header) (hl : Spec.V1.Line ip6Model h.header h.addresses) :
    ∃ between, h.header = PROXY ++ [SP] ++ h.protocol ++ between ++ CRLF ∧
      h.addressesStr = (if between.head? = some SP then between.drop 1 else between) ∧
      (between = [] ∨ between.head? = some SP) := by
  obtain ⟨between, e, hb, -⟩ := shape h hl
  exact ⟨between, e, addressesStr_of_shape e, hb⟩

/-- **C15 (re-assembly, clean form).** `PROXY`, a space, the protocol keyword, the
separated address text and CR LF re-assemble to the header text; the separator is a
single space, or nothing when the line is a bare `PROXY UNKNOWN`. -/
theorem reassemble_sep (h : Header) (hl : Spec.V1.Line ip6Model h.header h.addresses) :
    ∃ sep, (sep = [] ∨ sep = [SP]) ∧
      h.header = PROXY ++ [SP] ++ h.protocol ++ sep ++ h.addressesStr ++ CRLF := by
  obtain ⟨between, e, ha, hb⟩ := reassemble h hl
  rcases hb with rfl | hb
  · refine ⟨[], Or.inl rfl, ?_⟩
    rw [ha, e]; simp
  · cases between with
    | nil => cases hb
    | cons c t =>
      simp only [List.head?_cons, Option.some.injEq] at hb
      subst hb
      refine ⟨[SP], Or.inr rfl, ?_⟩
      rw [ha, e]
      simp only [List.head?_cons, if_true, List.drop_succ_cons, List.drop_zero, List.append_assoc,
        List.cons_append, List.nil_append]

/-- The separator is empty only for a bare `PROXY <protocol>\r\n`, whose address text is
empty too. -/
theorem reassemble_sep_nil (h : Header) (hl : Spec.V1.Line ip6Model h.header h.addresses)
    (e : h.header = PROXY ++ [SP] ++ h.protocol ++ [] ++ h.addressesStr ++ CRLF) :
    h.addressesStr = [] ∧ h.header = PROXY ++ [SP] ++ h.protocol ++ CRLF := by
  obtain ⟨between, e', ha, hb⟩ := reassemble h hl
  have hbe : between = h.addressesStr := by
    have := e'.symm.trans e
    simp only [List.append_assoc, List.nil_append, List.append_cancel_left_eq] at this
    exact List.append_cancel_right this
  have hnil : h.addressesStr = [] := by
    rcases hb with rfl | hb
    · exact hbe.symm
    · rw [if_pos hb, ← hbe] at ha
      have := congrArg List.length ha
      cases between with
      | nil => cases hb
      | cons c t => simp at this
  refine ⟨hnil, ?_⟩
  rw [hnil] at e
  simpa using e

/-! ### The content of the address text -/

/-- On a `TCP4` line the address text is the four fields, separated by single spaces. -/
theorem addressesStr_tcp4 (h : Header) (a : IPv4) (sa da sp dp : B) (ha : h.addresses = .tcp4 a)
    (e : h.header = PROXY ++ [SP] ++ TCP4 ++ [SP] ++ sa ++ [SP] ++ da ++ [SP] ++ sp ++ [SP] ++ dp ++ CRLF) :
    h.addressesStr = sa ++ [SP] ++ da ++ [SP] ++ sp ++ [SP] ++ dp := by
  have hp : h.protocol = TCP4 := by rw [Header.protocol, ha]; rfl
  have e' : h.header = PROXY ++ [SP] ++ h.protocol ++ (SP :: (sa ++ [SP] ++ da ++ [SP] ++ sp ++ [SP] ++ dp)) ++ CRLF := by
    rw [e, hp]; simp only [List.append_assoc, List.cons_append, List.nil_append]
  rw [addressesStr_of_shape e']
  simp

/-- On a `TCP6` line the address text is the four fields, separated by single spaces. -/
theorem addressesStr_tcp6 (h : Header) (a : IPv6) (sa da sp dp : B) (ha : h.addresses = .tcp6 a)
    (e : h.header = PROXY ++ [SP] ++ TCP6 ++ [SP] ++ sa ++ [SP] ++ da ++ [SP] ++ sp ++ [SP] ++ dp ++ CRLF) :
    h.addressesStr = sa ++ [SP] ++ da ++ [SP] ++ sp ++ [SP] ++ dp := by
  have hp : h.protocol = TCP6 := by rw [Header.protocol, ha]; rfl
  have e' : h.header = PROXY ++ [SP] ++ h.protocol ++ (SP :: (sa ++ [SP] ++ da ++ [SP] ++ sp ++ [SP] ++ dp)) ++ CRLF := by
    rw [e, hp]; simp only [List.append_assoc, List.cons_append, List.nil_append]
  rw [addressesStr_of_shape e']
  simp

/-- On an `UNKNOWN` line with tail `tail` (empty, or a space and arbitrary text) the
address text is the tail without its leading space. -/
theorem addressesStr_unknown (h : Header) (tail : B) (ha : h.addresses = .unknown)
    (ht : tail = [] ∨ tail.head? = some SP)
    (e : h.header = PROXY ++ [SP] ++ UNKNOWN ++ tail ++ CRLF) :
    h.addressesStr = tail.drop 1 := by
  have hp : h.protocol = UNKNOWN := by rw [Header.protocol, ha]; rfl
  rw [← hp] at e
  rw [addressesStr_of_shape e]
  rcases ht with rfl | ht
  · rfl
  · rw [if_pos ht]

/-- A bare `PROXY UNKNOWN\r\n` has an empty address text. -/
theorem addressesStr_unknown_nil (h : Header) (ha : h.addresses = .unknown)
    (e : h.header = PROXY ++ [SP] ++ UNKNOWN ++ CRLF) : h.addressesStr = [] :=
  addressesStr_unknown h [] ha (Or.inl rfl) (by rw [e]; rfl)

/-- **C15 (content).** Case by case, a well-formed header is one of the three line forms
of the grammar (with the field texts denoting the decoded addresses), and its address
text is: the four fields separated by single spaces (TCP4, TCP6); the free text after
`UNKNOWN` without its leading space (UNKNOWN). -/
theorem addressesStr_cases (h : Header) (hl : Spec.V1.Line ip6Model h.header h.addresses) :
    (∃ tail, h.addresses = .unknown ∧ (tail = [] ∨ tail.head? = some SP) ∧ crFree tail ∧
        h.header = PROXY ++ [SP] ++ UNKNOWN ++ tail ++ CRLF ∧ h.addressesStr = tail.drop 1) ∨
    (∃ sa da sp dp a b p q,
        h.addresses = .tcp4 { srcAddr := a, srcPort := p, dstAddr := b, dstPort := q } ∧
        Spec.V1.Ipv4Text sa a ∧ Spec.V1.Ipv4Text da b ∧ Spec.V1.PortText sp p ∧ Spec.V1.PortText dp q ∧
        h.header = PROXY ++ [SP] ++ TCP4 ++ [SP] ++ sa ++ [SP] ++ da ++ [SP] ++ sp ++ [SP] ++ dp ++ CRLF ∧
        h.addressesStr = sa ++ [SP] ++ da ++ [SP] ++ sp ++ [SP] ++ dp) ∨
    (∃ sa da sp dp a b p q,
        h.addresses = .tcp6 { srcAddr := a, srcPort := p, dstAddr := b, dstPort := q } ∧
        ip6Model sa a ∧ ip6Model da b ∧ Spec.V1.PortText sp p ∧ Spec.V1.PortText dp q ∧
        h.header = PROXY ++ [SP] ++ TCP6 ++ [SP] ++ sa ++ [SP] ++ da ++ [SP] ++ sp ++ [SP] ++ dp ++ CRLF ∧
        h.addressesStr = sa ++ [SP] ++ da ++ [SP] ++ sp ++ [SP] ++ dp) := by
  obtain ⟨hd, ad⟩ := h
  simp only at hl
  cases hl with
  | unknown tail h1 h2 =>
    exact .inl ⟨tail, rfl, h1, h2, rfl, addressesStr_unknown _ tail rfl h1 rfl⟩
  | tcp4 sa da sp dp a b p q hsa hda hsp hdp =>
    exact .inr (.inl ⟨sa, da, sp, dp, a, b, p, q, rfl, hsa, hda, hsp, hdp, rfl,
      addressesStr_tcp4 _ _ sa da sp dp rfl rfl⟩)
  | tcp6 sa da sp dp a b p q hsa hda hsp hdp =>
    exact .inr (.inr ⟨sa, da, sp, dp, a, b, p, q, rfl, hsa, hda, hsp, hdp, rfl,
      addressesStr_tcp6 _ _ sa da sp dp rfl rfl⟩)

/-- On an address line (`TCP4` / `TCP6`) the separator is a single space. -/
theorem reassemble_tcp (h : Header) (hl : Spec.V1.Line ip6Model h.header h.addresses)
    (ha : h.addresses ≠ .unknown) :
    h.header = PROXY ++ [SP] ++ h.protocol ++ [SP] ++ h.addressesStr ++ CRLF := by
  rcases addressesStr_cases h hl with ⟨_, hu, -⟩ | ⟨sa, da, sp, dp, a, b, p, q, hk, -, -, -, -, e, es⟩ |
      ⟨sa, da, sp, dp, a, b, p, q, hk, -, -, -, -, e, es⟩
  · exact absurd hu ha
  · have hp : h.protocol = TCP4 := by rw [Header.protocol, hk]; rfl
    rw [hp, es, e]; simp only [List.append_assoc]
  · have hp : h.protocol = TCP6 := by rw [Header.protocol, hk]; rfl
    rw [hp, es, e]; simp only [List.append_assoc]

/-! ### `Display` and `to_owned` -/

/-- `Display` prints the header text. -/
theorem display_is_header (h : Header) : h.display = h.header := rfl

/-- `to_owned` keeps the header, hence every view of it (ownership is erased in the model). -/
theorem owned_views (h : Header) : h.toOwned = h := rfl

theorem owned_views_all (h : Header) :
    h.toOwned.header = h.header ∧ h.toOwned.addresses = h.addresses ∧ h.toOwned.protocol = h.protocol ∧
      h.toOwned.addressesStr = h.addressesStr ∧ h.toOwned.addressesStrP = h.addressesStrP ∧
      h.toOwned.display = h.display :=
  ⟨rfl, rfl, rfl, rfl, rfl, rfl⟩

/-! ## `addresses_str` never panics on an accepted header -/

theorem SP_ascii : SP < 0x80 := by decide
theorem CR_ascii : CR < 0x80 := by decide

/-- On a valid header text of the shape above, the panic-aware accessor returns normally. -/
theorem addressesStrP_of_shape {h : Header} {between : B}
    (e : h.header = PROXY ++ [SP] ++ h.protocol ++ between ++ CRLF)
    (hb : between = [] ∨ between.head? = some SP) (hv : Utf8.valid h.header = true) :
    h.addressesStrP = .val h.addressesStr := by
  have hslice := slice_of_shape e
  -- lengths
  have hlen : h.header.length = PROXY.length + 1 + h.protocol.length + between.length + CRLF.length := by
    rw [e]; simp only [List.length_append, List.length_cons, List.length_nil]
  have h2 : CRLF.length ≤ h.header.length := by omega
  have hse : PROXY.length + 1 + h.protocol.length ≤ h.header.length - CRLF.length := by omega
  have hend : h.header.length - CRLF.length ≤ h.header.length := by omega
  -- `header[end]` is the CR: a boundary, and what precedes it is valid
  have e1 : h.header = (PROXY ++ [SP] ++ h.protocol ++ between) ++ CR :: [LF] := e
  have hv1 := hv; rw [e1] at hv1
  obtain ⟨bend, vpre⟩ := Utf8.boundary_before_ascii _ CR [LF] hv1 CR_ascii
  have bend' : Utf8.isCharBoundary h.header (h.header.length - CRLF.length) = true := by
    have : h.header.length - CRLF.length = (PROXY ++ [SP] ++ h.protocol ++ between).length := by
      rw [hlen]; simp only [List.length_append, List.length_cons, List.length_nil]; omega
    rw [this]; rw [e1]; exact bend
  -- `header[start]` is a space or the CR: a boundary, and what precedes it is valid
  obtain ⟨c, r, hc, ecr⟩ : ∃ c r, c < 0x80 ∧ between ++ CRLF = c :: r := by
    rcases hb with rfl | hb
    · exact ⟨CR, [LF], CR_ascii, rfl⟩
    · cases between with
      | nil => cases hb
      | cons c t =>
        simp only [List.head?_cons, Option.some.injEq] at hb
        subst hb
        exact ⟨SP, t ++ CRLF, SP_ascii, rfl⟩
  have e2 : h.header = (PROXY ++ [SP] ++ h.protocol) ++ c :: r := by
    rw [e, ← ecr]; simp only [List.append_assoc]
  have hv2 := hv; rw [e2] at hv2
  obtain ⟨bstart, vhead⟩ := Utf8.boundary_before_ascii _ c r hv2 hc
  have bstart' : Utf8.isCharBoundary h.header (PROXY.length + 1 + h.protocol.length) = true := by
    rw [← PROXY_SP_length, e2]; exact bstart
  -- the slice is valid
  have vbetween : Utf8.valid between = true := by
    rw [List.append_assoc] at vpre
    exact Utf8.valid_of_append_left _ _ vpre vhead
  -- evaluate
  unfold Header.addressesStrP Header.addressesStr
  rw [subP_of_le h2]
  simp only [Outcome.val_bind, bstart', bend', Bool.and_self, Bool.not_true, Bool.false_eq_true, if_false]
  rw [sliceP_of_le hse hend]
  simp only [Outcome.val_bind, hslice]
  rcases hb with rfl | hb
  · rfl
  · cases between with
    | nil => cases hb
    | cons c' t =>
      simp only [List.head?_cons, Option.some.injEq] at hb
      subst hb
      have b1 := (Utf8.boundary_after_ascii [] SP t SP_ascii vbetween).1
      simp only [List.nil_append, List.length_nil, Nat.zero_add] at b1
      simp only [List.head?_cons, beq_self_eq_true, if_true, b1, Bool.not_true, Bool.false_eq_true, if_false]
      rw [sliceFromP_of_le (by simp)]

/-- **C15 (no panic).** On every well-formed header whose text is a `&str`,
`addresses_str` returns normally with the value of the pure model: the subtraction does
not underflow, `start ≤ end ≤ len`, both ends of the first slice and the start of the
second slice are char boundaries. -/
theorem addressesStr_no_panic (h : Header) (hl : Spec.V1.Line ip6Model h.header h.addresses)
    (hv : Utf8.valid h.header = true) : h.addressesStrP = .val h.addressesStr := by
  obtain ⟨between, e, hb, -⟩ := shape h hl
  exact addressesStrP_of_shape e hb hv

/-! ## The entry points -/

section EntryPoints
variable {x : B} {h : Header}

theorem parseBytes_protocol_matches (hp : parseBytes x = .ok h) :
    ∃ rest, h.header = PROXY ++ [SP] ++ h.protocol ++ rest ∧
      (rest.head? = some SP ∨ rest.head? = some CR) ∧
      h.protocol = (match h.addresses with | .unknown => UNKNOWN | .tcp4 _ => TCP4 | .tcp6 _ => TCP6) :=
  protocol_matches h (wellFormed_of_parseBytes hp)

theorem parseStr_protocol_matches (hp : parseStr x = .ok h) :
    ∃ rest, h.header = PROXY ++ [SP] ++ h.protocol ++ rest ∧
      (rest.head? = some SP ∨ rest.head? = some CR) ∧
      h.protocol = (match h.addresses with | .unknown => UNKNOWN | .tcp4 _ => TCP4 | .tcp6 _ => TCP6) :=
  protocol_matches h (wellFormed_of_parseStr hp)

theorem parseBytes_reassemble (hp : parseBytes x = .ok h) :
    ∃ between, h.header = PROXY ++ [SP] ++ h.protocol ++ between ++ CRLF ∧
      h.addressesStr = (if between.head? = some SP then between.drop 1 else between) ∧
      (between = [] ∨ between.head? = some SP) :=
  reassemble h (wellFormed_of_parseBytes hp)

theorem parseStr_reassemble (hp : parseStr x = .ok h) :
    ∃ between, h.header = PROXY ++ [SP] ++ h.protocol ++ between ++ CRLF ∧
      h.addressesStr = (if between.head? = some SP then between.drop 1 else between) ∧
      (between = [] ∨ between.head? = some SP) :=
  reassemble h (wellFormed_of_parseStr hp)

theorem parseBytes_reassemble_sep (hp : parseBytes x = .ok h) :
    ∃ sep, (sep = [] ∨ sep = [SP]) ∧
      h.header = PROXY ++ [SP] ++ h.protocol ++ sep ++ h.addressesStr ++ CRLF :=
  reassemble_sep h (wellFormed_of_parseBytes hp)

theorem parseStr_reassemble_sep (hp : parseStr x = .ok h) :
    ∃ sep, (sep = [] ∨ sep = [SP]) ∧
      h.header = PROXY ++ [SP] ++ h.protocol ++ sep ++ h.addressesStr ++ CRLF :=
  reassemble_sep h (wellFormed_of_parseStr hp)

/-- The accepted header text is a prefix of the input (the window). -/
theorem parseBytes_header_prefix (hp : parseBytes x = .ok h) : h.header <+: x := by
  obtain ⟨n, hw, -, hok⟩ := parseBytes_ok_inv hp
  rw [(wellFormed_of_parseHeader hw hok).1]; exact List.take_prefix _ _

theorem parseStr_header_prefix (hp : parseStr x = .ok h) : h.header <+: x := by
  obtain ⟨n, hw, -, hok⟩ := parseStr_ok_inv hp
  rw [(wellFormed_of_parseHeader hw hok).1]; exact List.take_prefix _ _

/-- **C15 (no panic, bytes).** `addresses_str` on a header returned by `TryFrom<&[u8]>`
returns normally; validity of the header text comes from `parseBytes`' own check. -/
theorem parse_accessors_no_panic (hp : parseBytes x = .ok h) : h.addressesStrP = .val h.addressesStr :=
  addressesStr_no_panic h (wellFormed_of_parseBytes hp) (valid_of_parseBytes hp)

/-- **C15 (no panic, str).** `addresses_str` on a header returned by `TryFrom<&str>` (the
input being a `&str`) returns normally. -/
theorem parseStr_accessors_no_panic (hx : Utf8.valid x = true) (hp : parseStr x = .ok h) :
    h.addressesStrP = .val h.addressesStr :=
  addressesStr_no_panic h (wellFormed_of_parseStr hp) (valid_of_parseStr hx hp)

end EntryPoints

/-! ## Non-vacuity: concrete headers (all by kernel evaluation of the definitions) -/

section Examples

/-- `"PROXY UNKNOWN a b\r\n"` -/
def exUnknown : Header := ⟨PROXY ++ [SP] ++ UNKNOWN ++ [SP, 0x61, SP, 0x62] ++ CRLF, .unknown⟩
/-- `"PROXY UNKNOWN\r\n"` -/
def exBare : Header := ⟨PROXY ++ [SP] ++ UNKNOWN ++ CRLF, .unknown⟩
/-- `"PROXY UNKNOWN é\r\n"` (a two-byte character in the free text) -/
def exUtf8 : Header := ⟨PROXY ++ [SP] ++ UNKNOWN ++ [SP, 0xC3, 0xA9] ++ CRLF, .unknown⟩
/-- `"PROXY TCP4 1.2.3.4 5.6.7.8 80 443\r\n"` -/
def exTcp4Bytes : B :=
  PROXY ++ [SP] ++ TCP4 ++ [SP, 0x31, 0x2E, 0x32, 0x2E, 0x33, 0x2E, 0x34, SP, 0x35, 0x2E, 0x36, 0x2E, 0x37,
    0x2E, 0x38, SP, 0x38, 0x30, SP, 0x34, 0x34, 0x33] ++ CRLF
def exTcp4 : Header := ⟨exTcp4Bytes, .tcp4 ⟨⟨1, 2, 3, 4⟩, 80, ⟨5, 6, 7, 8⟩, 443⟩⟩
/-- `"PROXY TCP6 ::1 ::2 80 443\r\n"` -/
def exTcp6Bytes : B :=
  PROXY ++ [SP] ++ TCP6 ++ [SP, 0x3A, 0x3A, 0x31, SP, 0x3A, 0x3A, 0x32, SP, 0x38, 0x30, SP, 0x34, 0x34, 0x33] ++ CRLF

def exTcp6 : Header :=
  ⟨exTcp6Bytes, .tcp6 ⟨⟨[0, 0, 0, 0, 0, 0, 0, 0, 0, 0, 0, 0, 0, 0, 0, 1], rfl⟩, 80,
    ⟨[0, 0, 0, 0, 0, 0, 0, 0, 0, 0, 0, 0, 0, 0, 0, 2], rfl⟩, 443⟩⟩

/-- The hypothesis "well-formed header" is satisfiable. -/
example : Spec.V1.Line ip6Model exUnknown.header exUnknown.addresses :=
  Spec.V1.Line.unknown [SP, 0x61, SP, 0x62] (Or.inr rfl) (by decide)

set_option maxRecDepth 8000 in
example : parseBytes exUnknown.header = .ok exUnknown := by decide
set_option maxRecDepth 8000 in
example : parseStr exUnknown.header = .ok exUnknown := by decide
set_option maxRecDepth 8000 in
example : parseBytes (exTcp4Bytes ++ [0x47, 0x45, 0x54]) = .ok exTcp4 := by decide
set_option maxRecDepth 8000 in
example : parseBytes exTcp6Bytes = .ok exTcp6 := by decide
set_option maxRecDepth 8000 in
example : exTcp6.protocol = TCP6 ∧
    exTcp6.addressesStr = [0x3A, 0x3A, 0x31, SP, 0x3A, 0x3A, 0x32, SP, 0x38, 0x30, SP, 0x34, 0x34, 0x33] ∧
    exTcp6.addressesStrP = .val exTcp6.addressesStr := by decide

set_option maxRecDepth 4000 in
example : exUnknown.protocol = UNKNOWN ∧ exUnknown.addressesStr = [0x61, SP, 0x62] ∧
    exUnknown.addressesStrP = .val [0x61, SP, 0x62] ∧ exUnknown.display = exUnknown.header := by decide
set_option maxRecDepth 4000 in
example : exBare.addressesStr = [] ∧ exBare.addressesStrP = .val [] := by decide
set_option maxRecDepth 4000 in
example : Utf8.valid exUtf8.header = true ∧ exUtf8.addressesStr = [0xC3, 0xA9] ∧
    exUtf8.addressesStrP = .val [0xC3, 0xA9] := by decide
set_option maxRecDepth 4000 in
example : exTcp4.protocol = TCP4 ∧
    exTcp4.addressesStr = [0x31, 0x2E, 0x32, 0x2E, 0x33, 0x2E, 0x34, SP, 0x35, 0x2E, 0x36, 0x2E, 0x37,
      0x2E, 0x38, SP, 0x38, 0x30, SP, 0x34, 0x34, 0x33] ∧
    exTcp4.addressesStrP = .val exTcp4.addressesStr ∧
    exTcp4.header = PROXY ++ [SP] ++ exTcp4.protocol ++ [SP] ++ exTcp4.addressesStr ++ CRLF := by decide

/-- The theorems instantiate on a concrete accepted input (header followed by payload). -/
example : exTcp4.addressesStrP = .val exTcp4.addressesStr ∧
    exTcp4.header = PROXY ++ [SP] ++ exTcp4.protocol ++ [SP] ++ exTcp4.addressesStr ++ CRLF :=
  have hp : parseBytes (exTcp4Bytes ++ [0x47, 0x45, 0x54]) = .ok exTcp4 := by
    set_option maxRecDepth 8000 in decide
  ⟨parse_accessors_no_panic hp, reassemble_tcp _ (wellFormed_of_parseBytes hp) (by decide)⟩

/-- The panic model is not trivially `.val`: on headers that are *not* well-formed the
accessor panics — a text shorter than CR LF (the `usize` subtraction), and a text whose
byte 13 is inside a two-byte character while the addresses say `UNKNOWN` (the slice
start is not a char boundary). -/
example : (⟨[CR], .unknown⟩ : Header).addressesStrP = .panic := by decide
set_option maxRecDepth 4000 in
example : (⟨PROXY ++ [SP] ++ [0x55, 0x4E, 0x4B, 0x4E, 0x4F, 0x57, 0xC3, 0xA9, SP, 0x61] ++ CRLF, .unknown⟩ :
    Header).addressesStrP = .panic := by decide

end Examples

/-! ## Which separator: the discriminator missing from `reassemble_sep` -/

/-- **C15 (re-assembly, which separator).** `reassemble_sep` says the header text is
`PROXY␠<protocol><sep><addresses_str>\r\n` with `sep` empty or one space, and the two
views `protocol`, `addresses_str` alone do not tell which (`"PROXY UNKNOWN\r\n"` and
`"PROXY UNKNOWN \r\n"` have the same views).  The length of the header text does: the
single-space re-assembly is the header text exactly when the header is not the bare
`PROXY␠<protocol>\r\n` (`6 + protocol.len() + 2` bytes). -/
theorem sep_iff (h : Header) (hl : Spec.V1.Line ip6Model h.header h.addresses) :
    h.header = PROXY ++ [SP] ++ h.protocol ++ [SP] ++ h.addressesStr ++ CRLF ↔
      h.header.length ≠ 6 + h.protocol.length + 2 := by
  obtain ⟨between, e, ha, hb⟩ := reassemble h hl
  have hlen : h.header.length = 6 + h.protocol.length + between.length + 2 := by
    have := congrArg List.length e
    simp only [List.length_append, List.length_cons, List.length_nil, PROXY, CRLF] at this
    omega
  rcases hb with rfl | hb
  · -- bare line: the single-space form is one byte too long
    simp only [List.head?_nil, reduceCtorEq, if_false] at ha
    constructor
    · intro e2
      have := congrArg List.length e2
      rw [ha] at this
      simp only [List.length_append, List.length_cons, List.length_nil, PROXY, CRLF] at this hlen
      omega
    · intro hne; simp only [List.length_nil] at hlen; omega
  · cases between with
    | nil => cases hb
    | cons c t =>
      simp only [List.head?_cons, Option.some.injEq] at hb
      subst hb
      constructor
      · intro _; simp only [List.length_cons] at hlen; omega
      · intro _
        rw [ha, e]
        simp only [List.head?_cons, if_true, List.drop_succ_cons, List.drop_zero, List.append_assoc,
          List.cons_append, List.nil_append]

/-- The complementary case: the empty-separator re-assembly is the header text exactly when
the header is the bare `PROXY␠<protocol>\r\n`; then `addresses_str` is empty. -/
theorem sep_nil_iff (h : Header) (hl : Spec.V1.Line ip6Model h.header h.addresses) :
    h.header = PROXY ++ [SP] ++ h.protocol ++ h.addressesStr ++ CRLF ↔
      h.header.length = 6 + h.protocol.length + 2 := by
  constructor
  · intro e
    have e' : h.header = PROXY ++ [SP] ++ h.protocol ++ [] ++ h.addressesStr ++ CRLF := by
      rw [List.append_nil]; exact e
    have := (reassemble_sep_nil h hl e').2
    rw [this]; simp only [List.length_append, List.length_cons, List.length_nil, PROXY, CRLF]
  · intro hlen
    obtain ⟨sep, hs, e⟩ := reassemble_sep h hl
    rcases hs with rfl | rfl
    · rw [List.append_nil] at e; exact e
    · exact absurd hlen ((sep_iff h hl).mp e)

/-- Exactly one of the two re-assemblies is the header text. -/
theorem sep_exclusive (h : Header) (hl : Spec.V1.Line ip6Model h.header h.addresses) :
    (h.header = PROXY ++ [SP] ++ h.protocol ++ [SP] ++ h.addressesStr ++ CRLF ∧
      h.header ≠ PROXY ++ [SP] ++ h.protocol ++ h.addressesStr ++ CRLF) ∨
    (h.header = PROXY ++ [SP] ++ h.protocol ++ h.addressesStr ++ CRLF ∧
      h.header ≠ PROXY ++ [SP] ++ h.protocol ++ [SP] ++ h.addressesStr ++ CRLF) := by
  simp only [ne_eq, sep_iff h hl, sep_nil_iff h hl]
  omega

theorem parseBytes_sep_iff {x : B} {h : Header} (hp : parseBytes x = .ok h) :
    h.header = PROXY ++ [SP] ++ h.protocol ++ [SP] ++ h.addressesStr ++ CRLF ↔
      h.header.length ≠ 6 + h.protocol.length + 2 :=
  sep_iff h (wellFormed_of_parseBytes hp)

theorem parseStr_sep_iff {x : B} {h : Header} (hp : parseStr x = .ok h) :
    h.header = PROXY ++ [SP] ++ h.protocol ++ [SP] ++ h.addressesStr ++ CRLF ↔
      h.header.length ≠ 6 + h.protocol.length + 2 :=
  sep_iff h (wellFormed_of_parseStr hp)

section SepExamples

/-- `"PROXY UNKNOWN \r\n"` -/
def exBareSp : Header := ⟨PROXY ++ [SP] ++ UNKNOWN ++ [SP] ++ CRLF, .unknown⟩

example : Spec.V1.Line ip6Model exBare.header exBare.addresses :=
  Spec.V1.Line.unknown [] (Or.inl rfl) (by decide)
example : Spec.V1.Line ip6Model exBareSp.header exBareSp.addresses :=
  Spec.V1.Line.unknown [SP] (Or.inr rfl) (by decide)

/-- Both are accepted, both have protocol `UNKNOWN` and an empty address text … -/
example : parseBytes exBare.header = .ok exBare ∧ parseBytes exBareSp.header = .ok exBareSp ∧
    exBare.protocol = exBareSp.protocol ∧ exBare.addressesStr = [] ∧ exBareSp.addressesStr = [] := by
  set_option maxRecDepth 8000 in decide

/-- … and `sep_iff` tells them apart: 15 bytes = 6 + 7 + 2, against 16. -/
example : exBare.header ≠ PROXY ++ [SP] ++ exBare.protocol ++ [SP] ++ exBare.addressesStr ++ CRLF :=
  fun e => (sep_iff exBare (Spec.V1.Line.unknown [] (Or.inl rfl) (by decide))).mp e (by decide)
example : exBareSp.header = PROXY ++ [SP] ++ exBareSp.protocol ++ [SP] ++ exBareSp.addressesStr ++ CRLF :=
  (sep_iff exBareSp (Spec.V1.Line.unknown [SP] (Or.inr rfl) (by decide))).mpr (by decide)

end SepExamples

end C15
