import PppModel.Auto

/-! # C15 (theorems under construction) -/

namespace C15
end C15
