import PppModel.Lemmas.Builder
import PppModel.Lemmas.BuilderExact

/-!
# C10 — builder output is the in-order concatenation of what was written, nothing else
-/

namespace C10
open V2 Spec.Builder

/-- General form: from any state with nothing written yet. -/
theorem run_is_reference {b : Builder} {vc afp : UInt8} {addr : Addresses}
    (h : Shape b vc afp addr none []) (ops : List Op) (out : B) (hr : b.run ops = some out) :
    reference vc afp addr ops = some out := by
  simp only [Builder.run] at hr
  cases hrf : Builder.runFrom b ops with
  | none => rw [hrf] at hr; cases hr
  | some b' =>
    rw [hrf] at hr
    simp only at hr
    obtain ⟨e, he, hsh⟩ := runFrom_shape h ops b' hrf
    rw [build_shape hsh] at hr
    rw [reference_eq vc afp addr ops e he]
    simp only [List.nil_append] at hr
    simp only [lengthInForce]
    cases hl : lengthFrom none ops with
    | some l => rw [hl] at hr; simpa [buildOf] using hr
    | none =>
      rw [hl] at hr
      simp only [buildOf] at hr
      simp only [Option.getD_none]
      by_cases hle : (Spec.V2.addrBytes addr).length + e.length ≤ 65535
      · simpa [hle] using hr
      · simp [hle] at hr

/-- **C10** for `Builder::new`: a successful build returns the signature, the two
control bytes as given, the length field, and the payload encodings in call
order. -/
theorem output_is_reference (vc afp : UInt8) (ops : List Op) (out : B)
    (h : (Builder.new vc afp).run ops = some out) : reference vc afp .unspec ops = some out :=
  run_is_reference (shape_new vc afp) ops out h


/-- **C10** for `Builder::with_addresses`: the family nibble is taken from the
address value, whose encoding follows the fixed part. -/
theorem output_is_reference_with (vc : UInt8) (t : Transport) (a : Addresses) (ops : List Op) (out : B)
    (h : (Builder.withAddresses vc t a).run ops = some out) :
    reference vc (Spec.V2.familyTransport a.family t) a ops = some out := by
  rw [← afpByte_eq_spec]
  exact run_is_reference (shape_withAddresses vc t a) ops out h

/-! ### capacity reservations have no effect -/

def isReserve : Op → Bool
  | .reserve _ => true
  | _ => false

theorem reserve_irrelevant_sim {b b' : Builder} (h : Sim b b') (ops : List Op) :
    b.run (ops.filter (fun o => !isReserve o)) = b'.run ops := by
  induction ops generalizing b b' with
  | nil => exact run_sim h []
  | cons op ops ih =>
    cases op with
    | reserve n =>
      simp only [isReserve, Bool.not_true, Bool.false_eq_true, not_false_eq_true, List.filter_cons_of_neg]
      obtain ⟨vc, afp, addr, len, bd, hs, hs'⟩ := h
      obtain ⟨b1, hb1, hsim⟩ := reserve_sim hs' n
      rw [run_cons, hb1]
      obtain ⟨_, _, _, _, _, q1, q2⟩ := hsim
      -- b ~ b' ~ b1
      have hq := q1
      have : Sim b b1 := by
        obtain ⟨e, he, hsh⟩ := step_shape hs' (.reserve n) b1 hb1
        simp only [opPayloads, encAll, Option.some.injEq] at he; subst he
        exact ⟨_, _, _, _, _, hs, by simpa [lenAfter] using hsh⟩
      exact ih this
    | setLength l =>
      simp only [isReserve, Bool.not_false, List.filter_cons_of_pos, run_cons]
      rcases step_sim h (.setLength l) with ⟨h1, h2⟩ | ⟨b1, b1', h1, h2, hsim⟩
      · rw [h1, h2]
      · rw [h1, h2]; exact ih hsim
    | writePayload p =>
      simp only [isReserve, Bool.not_false, List.filter_cons_of_pos, run_cons]
      rcases step_sim h (.writePayload p) with ⟨h1, h2⟩ | ⟨b1, b1', h1, h2, hsim⟩
      · rw [h1, h2]
      · rw [h1, h2]; exact ih hsim
    | writePayloads ps =>
      simp only [isReserve, Bool.not_false, List.filter_cons_of_pos, run_cons]
      rcases step_sim h (.writePayloads ps) with ⟨h1, h2⟩ | ⟨b1, b1', h1, h2, hsim⟩
      · rw [h1, h2]
      · rw [h1, h2]; exact ih hsim
    | writeTlv k v =>
      simp only [isReserve, Bool.not_false, List.filter_cons_of_pos, run_cons]
      rcases step_sim h (.writeTlv k v) with ⟨h1, h2⟩ | ⟨b1, b1', h1, h2, hsim⟩
      · rw [h1, h2]
      · rw [h1, h2]; exact ih hsim

/-
**Assumption A3 (capacity hints; outside the model).** `Builder.step (.reserve n)` is a
no-op on the output for every `n : Nat`. In Rust `reserve_capacity(n)` adds `n` to
`additional_capacity` (before the first write) or calls `Vec::reserve(n)` (after it), and
`write_header` allocates `Vec::with_capacity(16 + addresses.len() + additional_capacity)`.
`reserve_irrelevant` below (and `reserve_irrelevant_with`) therefore describe the Rust only
under the assumption that

* the sum of all capacity hints of the history, plus `16 + addresses.len()`, plus the bytes
  already in the buffer, stays below `isize::MAX` (and below `usize::MAX`, so that
  `additional_capacity += capacity` does not overflow), and
* the allocation succeeds.

Otherwise Rust panics with "capacity overflow" (or, with overflow checks, on the addition; or
aborts on allocation failure) — e.g. `Builder::new(0x21, 0).reserve_capacity(1 << 63).build()`
panics in every build profile. Such panics are not modelled: `n` is unbounded here, and the
theorem says nothing about histories that violate A3.
-/
/-- Removing every `reserve_capacity` call from a history does not change what is
built (or whether it is built). -/
theorem reserve_irrelevant (vc afp : UInt8) (ops : List Op) :
    (Builder.new vc afp).run (ops.filter (fun o => !isReserve o)) = (Builder.new vc afp).run ops :=
  reserve_irrelevant_sim (sim_refl_of_shape (shape_new vc afp)) ops

theorem reserve_irrelevant_with (vc : UInt8) (t : Transport) (a : Addresses) (ops : List Op) :
    (Builder.withAddresses vc t a).run (ops.filter (fun o => !isReserve o)) =
      (Builder.withAddresses vc t a).run ops :=
  reserve_irrelevant_sim (sim_refl_of_shape (shape_withAddresses vc t a)) ops

/-! ### one batch = the same payloads one at a time -/

theorem runFrom_written (b : Builder) (w : Writer) (hb : b.header = some w) (ps : List Payload) :
    Builder.runFrom b (ps.map .writePayload) =
      (writeMany w ps).map (fun w' => { b with header := some w' }) := by
  induction ps generalizing b w with
  | nil =>
    simp only [List.map_nil, Builder.runFrom, writeMany, Option.map_some]
    congr 1
    cases b; simp_all
  | cons p ps ih =>
    simp only [List.map_cons, Builder.runFrom, Builder.step, Builder.writeHeader, hb,
      Builder.writeInternal, Option.getD_some, writeMany]
    cases hp : p.writeTo w with
    | error e => rfl
    | ok r =>
      obtain ⟨n, w1⟩ := r
      simp only
      rw [ih { b with header := some w1 } w1 rfl]

theorem batch_step {b vc afp addr len bd} (h : Shape b vc afp addr len bd) (ps : List Payload) :
    (b.step (.writePayloads ps) = none ∧ Builder.runFrom b (ps.map .writePayload) = none) ∨
    ∃ b1 b1', b.step (.writePayloads ps) = some b1 ∧
      Builder.runFrom b (ps.map .writePayload) = some b1' ∧ Sim b1 b1' := by
  obtain ⟨bh, l0, hw, hsh, hh⟩ := writeHeader_shape h
  cases ps with
  | nil =>
    right
    refine ⟨{ bh with header := some (hdrOf vc afp addr l0 bd) }, b, ?_, rfl, ?_⟩
    · simp only [Builder.step, hw, hh, Option.getD_some, writeMany]
    · have : ({ bh with header := some (hdrOf vc afp addr l0 bd) } : Builder) = bh := by
        cases bh; simp_all
      rw [this]
      exact ⟨_, _, _, _, _, hsh, h⟩
  | cons p ps =>
    have e1 : b.step (.writePayloads (p :: ps)) =
        (writeMany (hdrOf vc afp addr l0 bd) (p :: ps)).map (fun w' => { bh with header := some w' }) := by
      simp only [Builder.step, hw, hh, Option.getD_some]
      cases writeMany (hdrOf vc afp addr l0 bd) (p :: ps) <;> rfl
    have e2 : Builder.runFrom b ((p :: ps).map .writePayload) =
        (writeMany (hdrOf vc afp addr l0 bd) (p :: ps)).map (fun w' => { bh with header := some w' }) := by
      simp only [List.map_cons, Builder.runFrom, Builder.step, hw, Builder.writeInternal, hh,
        Option.getD_some, writeMany]
      cases hp : p.writeTo (hdrOf vc afp addr l0 bd) with
      | error e => rfl
      | ok r =>
        obtain ⟨n, w1⟩ := r
        simp only
        rw [runFrom_written { bh with header := some w1 } w1 rfl]
    rw [e1, e2]
    cases hm : writeMany (hdrOf vc afp addr l0 bd) (p :: ps) with
    | none => left; exact ⟨rfl, rfl⟩
    | some w' =>
      right
      refine ⟨_, _, rfl, rfl, ?_⟩
      obtain ⟨e, he, rfl⟩ := writeMany_ok _ _ _ hm
      have : Shape { bh with header := some (hdrOf vc afp addr l0 bd ++ e) } vc afp addr len (bd ++ e) :=
        ⟨hsh.hvc, hsh.hafp, hsh.haddr, hsh.hlen, .inr ⟨l0, by simp [hdrOf_append]⟩⟩
      exact ⟨_, _, _, _, _, this, this⟩

theorem batch_irrelevant_sim {b b' : Builder} (h : Sim b b') (ps : List Payload) (post : List Op) :
    b.run (.writePayloads ps :: post) = b'.run (ps.map .writePayload ++ post) := by
  obtain ⟨vc, afp, addr, len, bd, hs, hs'⟩ := h
  rw [run_sim ⟨_, _, _, _, _, hs, hs'⟩, run_cons, run_append]
  rcases batch_step hs' ps with ⟨h1, h2⟩ | ⟨b1, b1', h1, h2, hsim⟩
  · rw [h1, h2]
  · rw [h1, h2]; exact run_sim hsim post

/-- Writing payloads as one batch or one call each gives the same result, at any
position of any history. -/
theorem batch_irrelevant (vc afp : UInt8) (pre post : List Op) (ps : List Payload) :
    (Builder.new vc afp).run (pre ++ .writePayloads ps :: post) =
      (Builder.new vc afp).run (pre ++ (ps.map .writePayload ++ post)) := by
  rw [run_append, run_append]
  cases hr : Builder.runFrom (Builder.new vc afp) pre with
  | none => rfl
  | some b1 =>
    obtain ⟨e, he, hsh⟩ := runFrom_shape (shape_new vc afp) pre b1 hr
    exact batch_irrelevant_sim (sim_refl_of_shape hsh) ps post

theorem batch_irrelevant_with (vc : UInt8) (t : Transport) (a : Addresses) (pre post : List Op)
    (ps : List Payload) :
    (Builder.withAddresses vc t a).run (pre ++ .writePayloads ps :: post) =
      (Builder.withAddresses vc t a).run (pre ++ (ps.map .writePayload ++ post)) := by
  rw [run_append, run_append]
  cases hr : Builder.runFrom (Builder.withAddresses vc t a) pre with
  | none => rfl
  | some b1 =>
    obtain ⟨e, he, hsh⟩ := runFrom_shape (shape_withAddresses vc t a) pre b1 hr
    exact batch_irrelevant_sim (sim_refl_of_shape hsh) ps post

/-- A TLV value, the equivalent (type, bytes) pair and `write_tlv` are the same call. -/
theorem tlv_pair_same (b : Builder) (k : UInt8) (v : B) :
    b.step (.writePayload (.tlv k v)) = b.step (.writePayload (.pair k v)) ∧
    b.step (.writeTlv k v) = b.step (.writePayload (.tlv k v)) := ⟨rfl, rfl⟩

/-! ### The complete characterisation: when a history succeeds, and with what

`V2.opsOk n ops` (Lemmas/BuilderExact.lean) is a purely arithmetic predicate on
chunk lengths: the writer's size guard is evaluated at the start of every
non-empty chunk and refuses it iff the buffer already holds more than
65535 + 16 bytes; a value with a length over 65535 is refused up front. -/

/-- **C10 / C09, exact form** for `Builder::new`: the history succeeds iff every write
passes the guard and, with no explicit length in force, the payload fits in 16
bits; then the output is the reference output; otherwise `build`/a write fails. -/
theorem run_exact (vc afp : UInt8) (ops : List Op) :
    (Builder.new vc afp).run ops =
      if opsOk 16 ops ∧ (lengthInForce ops ≠ none ∨ payloadLen ops ≤ 65535) then reference vc afp .unspec ops
      else none :=
  run_exact_new vc afp ops

theorem run_exact_with_addresses (vc : UInt8) (t : Transport) (a : Addresses) (ops : List Op) :
    (Builder.withAddresses vc t a).run ops =
      if opsOk (16 + (Spec.V2.addrBytes a).length) ops ∧
          (lengthInForce ops ≠ none ∨ (Spec.V2.addrBytes a).length + payloadLen ops ≤ 65535)
      then reference vc (afpByte a.family t) a ops else none :=
  run_exact_with vc t a ops

/-- Non-vacuity: a three-call history with a reservation and a batch. -/
example : (Builder.withAddresses 0x21 .stream
      (.ipv4 { srcAddr := ⟨1, 2, 3, 4⟩, srcPort := 80, dstAddr := ⟨5, 6, 7, 8⟩, dstPort := 443 })).run
      [.reserve 10, .writePayloads [.int 2 513, .slice [9]], .writeTlv 4 [42]] =
    some [0x0D, 0x0A, 0x0D, 0x0A, 0x00, 0x0D, 0x0A, 0x51, 0x55, 0x49, 0x54, 0x0A, 0x21, 0x11, 0, 19,
          1, 2, 3, 4, 5, 6, 7, 8, 0, 80, 1, 187, 2, 1, 9, 4, 0, 1, 42] := by decide

end C10
