import PppModel.V1.Ctor

/-!
# C19 — constructors and socket-address conversions keep every endpoint in its role

The theorems are immediate from the model; what they are worth is decided by
the correspondence check, which feeds the real constructors tuples with
pairwise-distinct components so that any transposition in the Rust shows up as
a disagreement with these definitions.
-/

namespace C19

theorem ipv4_new (sa da : Ip4) (sp dp : UInt16) :
    (IPv4.new sa da sp dp).srcAddr = sa ∧ (IPv4.new sa da sp dp).dstAddr = da ∧
    (IPv4.new sa da sp dp).srcPort = sp ∧ (IPv4.new sa da sp dp).dstPort = dp := ⟨rfl, rfl, rfl, rfl⟩

theorem ipv6_new (sa da : Ip6) (sp dp : UInt16) :
    (IPv6.new sa da sp dp).srcAddr = sa ∧ (IPv6.new sa da sp dp).dstAddr = da ∧
    (IPv6.new sa da sp dp).srcPort = sp ∧ (IPv6.new sa da sp dp).dstPort = dp := ⟨rfl, rfl, rfl, rfl⟩

theorem new_tcp (sa da : Ip4) (sa6 da6 : Ip6) (sp dp : UInt16) :
    V1.Addresses.newTcp4 sa da sp dp = .tcp4 ⟨sa, sp, da, dp⟩ ∧
    V1.Addresses.newTcp6 sa6 da6 sp dp = .tcp6 ⟨sa6, sp, da6, dp⟩ := ⟨rfl, rfl⟩

theorem unix_new (s d : FixB 108) : (V2.Unix.new s d).source = s ∧ (V2.Unix.new s d).destination = d :=
  ⟨rfl, rfl⟩

/-- A pair of socket addresses of the same family converts to that family's value
with the same IPs and ports, each in its role; a mixed pair converts to the
unknown / unspecified value. -/
theorem from_socket_pairs (s d : Ip4) (s6 d6 : Ip6) (sp dp : UInt16) (f1 f2 c1 c2 : Nat) :
    V1.Addresses.fromSockets (.v4 s sp) (.v4 d dp) = .tcp4 ⟨s, sp, d, dp⟩ ∧
    V1.Addresses.fromSockets (.v6 s6 sp f1 c1) (.v6 d6 dp f2 c2) = .tcp6 ⟨s6, sp, d6, dp⟩ ∧
    V1.Addresses.fromSockets (.v4 s sp) (.v6 d6 dp f2 c2) = .unknown ∧
    V1.Addresses.fromSockets (.v6 s6 sp f1 c1) (.v4 d dp) = .unknown ∧
    V2.Addresses.fromSockets (.v4 s sp) (.v4 d dp) = .ipv4 ⟨s, sp, d, dp⟩ ∧
    V2.Addresses.fromSockets (.v6 s6 sp f1 c1) (.v6 d6 dp f2 c2) = .ipv6 ⟨s6, sp, d6, dp⟩ ∧
    V2.Addresses.fromSockets (.v4 s sp) (.v6 d6 dp f2 c2) = .unspec ∧
    V2.Addresses.fromSockets (.v6 s6 sp f1 c1) (.v4 d dp) = .unspec :=
  ⟨rfl, rfl, rfl, rfl, rfl, rfl, rfl, rfl⟩

/-- The endpoints described by a v1 / v2 address value. -/
def endpoints1 : V1.Addresses → Option (B × UInt16 × B × UInt16)
  | .unknown => none
  | .tcp4 a => some (a.srcAddr.octets, a.srcPort, a.dstAddr.octets, a.dstPort)
  | .tcp6 a => some (a.srcAddr.val, a.srcPort, a.dstAddr.val, a.dstPort)

def endpoints2 : V2.Addresses → Option (B × UInt16 × B × UInt16)
  | .ipv4 a => some (a.srcAddr.octets, a.srcPort, a.dstAddr.octets, a.dstPort)
  | .ipv6 a => some (a.srcAddr.val, a.srcPort, a.dstAddr.val, a.dstPort)
  | _ => none

/-- The v1 and v2 conversions of the same pair describe the same endpoints. -/
theorem v1_v2_agree (a b : SocketAddr) :
    endpoints1 (V1.Addresses.fromSockets a b) = endpoints2 (V2.Addresses.fromSockets a b) := by
  cases a <;> cases b <;> rfl

/-- The `From<IPv4/IPv6/Unix>` conversions wrap the value unchanged. -/
theorem from_values (a : IPv4) (a6 : IPv6) (u : V2.Unix) :
    V1.Addresses.fromIPv4 a = .tcp4 a ∧ V1.Addresses.fromIPv6 a6 = .tcp6 a6 ∧
    V2.Addresses.fromIPv4 a = .ipv4 a ∧ V2.Addresses.fromIPv6 a6 = .ipv6 a6 ∧
    V2.Addresses.fromUnix u = .unix u ∧ (V2.Addresses.fromIPv4 a).family = .ipv4 := ⟨rfl, rfl, rfl, rfl, rfl, rfl⟩

/-- Non-vacuity: distinct components stay in their roles. -/
example : (IPv4.new ⟨1, 2, 3, 4⟩ ⟨5, 6, 7, 8⟩ 80 443).dstPort = 443 ∧
    (IPv4.new ⟨1, 2, 3, 4⟩ ⟨5, 6, 7, 8⟩ 80 443).srcAddr = ⟨1, 2, 3, 4⟩ := by decide

end C19
