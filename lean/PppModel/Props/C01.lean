import PppModel.Auto
import PppModel.Lemmas.V1Entry
import PppModel.Lemmas.Ipv6Grammar

/-!
# C01 — the v1 parser accepts exactly the well-formed lines and decodes them faithfully

`Spec.V1.Line` (PppModel/Spec/V1.lean) is the grammar of the protocol text
(proxy-protocol.txt section 2.1): `PROXY UNKNOWN[ …]\r\n`, `PROXY TCP4 a b p q\r\n`,
`PROXY TCP6 a b p q\r\n`, single spaces, plain decimal ports, dotted-quad IPv4 without
leading zeros.  The IPv6 text form is the parameter `ip6` of `Line`.

The `_partial` theorems below instantiate `ip6` with `V1.ip6Model` = "the std parser model
(`StdNet.parseIpv6`) accepts the text and the text contains no SP/CR".  They say, for every
entry point (`TryFrom<&[u8]>`, `TryFrom<&str>`, both `FromStr`):

* the input is accepted **iff** it begins with a well-formed line of at most 107 bytes
  (valid UTF-8 for the byte entry point), whatever follows that line;
* the header reported is exactly that line, and the addresses reported are exactly the
  ones the line denotes (`Line hdr addr` relates text and value);
* the line is the input through the LF after its *first* CR, has at least 15 bytes and
  starts with `PROXY ` (`accepted_header_facts`);
* the text of a TCP4 line is the canonical `Display` text of the decoded value
  (`decoded_fields`).

The full theorems (with `Spec.V1.Ipv6Text`, the RFC 4291 grammar, in place of
`V1.ip6Model`) follow from these by rewriting with `StdNet.parseIpv6_iff_text`
(`line_iff_text`); they are stated at the end of this file, one per entry point:
`bytes_accept_iff`, `str_accept_iff`, `fromStrHeader_accept_iff`,
`fromStrAddresses_accept_iff`, together with `ipv6Text_functional` (one text denotes one
address) and the panic-aware forms `bytesP_accept_iff`, `strP_accept_iff` (the real entry
points return normally, and return `Ok` exactly on those inputs).
-/

namespace C01
open V1

/-- The window handed to `parse_header` has nothing after the byte following its first CR. -/
theorem window_is_window (x : B) (n : Nat) (h : V1.windowLength x = some n) : V1.IsWindow (x.take n) :=
  V1.window_is_window x n h

/-! ## `TryFrom<&[u8]>` -/

/-- **C01 (bytes).** The byte entry point accepts `x` with result `h` iff `x` begins with
`h.header`, which is valid UTF-8, at most 107 bytes long and a well-formed line denoting
`h.addresses`. -/
theorem bytes_accept_iff_partial (x : B) (h : V1.Header) :
    V1.parseBytes x = .ok h ↔
      ∃ rest, x = h.header ++ rest ∧ h.header.length ≤ 107 ∧ Utf8.valid h.header = true ∧
        Spec.V1.Line V1.ip6Model h.header h.addresses := by
  rw [parseBytes_ok_iff_window]
  constructor
  · rintro ⟨n, hw, hv, hp⟩
    obtain ⟨h1, -, h3, h4, h5⟩ := accepted_core hw hp
    exact ⟨x.drop n, h3, h4, h1 ▸ hv, h5⟩
  · rintro ⟨rest, rfl, hlen, hv, hl⟩
    obtain ⟨-, hw, ht⟩ := window_of_line (rest := rest) hl
    refine ⟨_, hw, ?_, ?_⟩
    · rw [ht]; exact hv
    · rw [ht]; exact parseHeader_ok_of_line hlen hl

/-! ## `TryFrom<&str>` and the two `FromStr` -/

/-- The line ends with LF, an ASCII byte, so its end is a character boundary of the
valid string that contains it. -/
theorem boundary_after_line {hdr rest : B} {addr : V1.Addresses}
    (hl : Spec.V1.Line V1.ip6Model hdr addr) (hx : Utf8.valid (hdr ++ rest) = true) :
    Utf8.isCharBoundary (hdr ++ rest) hdr.length = true := by
  obtain ⟨body, -, rfl⟩ := line_shape hl
  have e : body ++ [CR, LF] ++ rest = (body ++ [CR]) ++ LF :: rest := by simp
  have hlen : (body ++ [CR, LF]).length = (body ++ [CR]).length + 1 := by simp
  rw [e, hlen]
  rw [e] at hx
  exact (Utf8.boundary_after_ascii (body ++ [CR]) LF rest (by decide) hx).1

/-- (→) of `str_accept_iff_partial`; needs nothing about UTF-8. -/
theorem str_accept_line {x : B} {h : V1.Header} (hp : V1.parseStr x = .ok h) :
    ∃ rest, x = h.header ++ rest ∧ h.header.length ≤ 107 ∧
      Spec.V1.Line V1.ip6Model h.header h.addresses := by
  obtain ⟨n, hw, -, hp⟩ := (parseStr_ok_iff_window x h).mp hp
  obtain ⟨-, -, h3, h4, h5⟩ := accepted_core hw hp
  exact ⟨x.drop n, h3, h4, h5⟩

/-- **C01 (text).** For an input that is a `&str`, the text entry point accepts `x` with
result `h` iff `x` begins with `h.header`, a well-formed line of at most 107 bytes
denoting `h.addresses`. -/
theorem str_accept_iff_partial (x : B) (hx : Utf8.valid x = true) (h : V1.Header) :
    V1.parseStr x = .ok h ↔
      ∃ rest, x = h.header ++ rest ∧ h.header.length ≤ 107 ∧
        Spec.V1.Line V1.ip6Model h.header h.addresses := by
  constructor
  · exact str_accept_line
  · rintro ⟨rest, rfl, hlen, hl⟩
    rw [parseStr_ok_iff_window]
    obtain ⟨-, hw, ht⟩ := window_of_line (rest := rest) hl
    refine ⟨_, hw, boundary_after_line hl hx, ?_⟩
    rw [ht]; exact parseHeader_ok_of_line hlen hl

theorem fromStrHeader_eq (x : B) : V1.fromStrHeader x = V1.parseStr x := by
  unfold V1.fromStrHeader; cases V1.parseStr x <;> rfl

/-- **C01 (`FromStr for Header`).** -/
theorem fromStrHeader_accept_iff_partial (x : B) (hx : Utf8.valid x = true) (h : V1.Header) :
    V1.fromStrHeader x = .ok h ↔
      ∃ rest, x = h.header ++ rest ∧ h.header.length ≤ 107 ∧
        Spec.V1.Line V1.ip6Model h.header h.addresses := by
  rw [fromStrHeader_eq]; exact str_accept_iff_partial x hx h

/-- **C01 (`FromStr for Addresses`).** The addresses are accepted iff the input begins
with a well-formed line of at most 107 bytes that denotes them. -/
theorem fromStrAddresses_accept_iff_partial (x : B) (hx : Utf8.valid x = true) (a : V1.Addresses) :
    V1.fromStrAddresses x = .ok a ↔
      ∃ hdr rest, x = hdr ++ rest ∧ hdr.length ≤ 107 ∧ Spec.V1.Line V1.ip6Model hdr a := by
  constructor
  · intro hf
    unfold V1.fromStrAddresses at hf
    cases hp : V1.parseStr x with
    | error e => rw [hp] at hf; cases hf
    | ok h =>
      rw [hp] at hf
      simp only [Except.ok.injEq] at hf
      subst hf
      obtain ⟨rest, h1, h2, h3⟩ := str_accept_line hp
      exact ⟨h.header, rest, h1, h2, h3⟩
  · rintro ⟨hdr, rest, h1, h2, h3⟩
    have : V1.parseStr x = .ok ⟨hdr, a⟩ := (str_accept_iff_partial x hx ⟨hdr, a⟩).mpr ⟨rest, h1, h2, h3⟩
    simp [V1.fromStrAddresses, this]

/-! ## What an accepted header looks like -/

/-- The header reported is exactly the line through its CR LF, ended by the *first* CR of
the input; every accepted input starts with `PROXY ` and has at least 15 bytes. -/
theorem accepted_header_facts {x : B} {h : V1.Header} (hp : V1.parseBytes x = .ok h) :
    h.header <+: x ∧ V1.CRLF.isSuffixOf h.header = true ∧
      V1.firstCR x = some (h.header.length - 2) ∧ 15 ≤ h.header.length ∧
      h.header.take 6 = V1.PROXY ++ [V1.SP] := by
  obtain ⟨rest, rfl, -, -, hl⟩ := (bytes_accept_iff_partial x h).mp hp
  exact line_facts hl

/-- The same for the text entry point (validity of the input is not needed). -/
theorem accepted_header_facts_str {x : B} {h : V1.Header} (hp : V1.parseStr x = .ok h) :
    h.header <+: x ∧ V1.CRLF.isSuffixOf h.header = true ∧
      V1.firstCR x = some (h.header.length - 2) ∧ 15 ≤ h.header.length ∧
      h.header.take 6 = V1.PROXY ++ [V1.SP] := by
  obtain ⟨rest, rfl, -, hl⟩ := str_accept_line hp
  exact line_facts hl

/-- Every accepted input starts with `PROXY `. -/
theorem accepted_starts_with_PROXY {x : B} {h : V1.Header} (hp : V1.parseBytes x = .ok h) :
    x.take 6 = V1.PROXY ++ [V1.SP] := by
  obtain ⟨⟨rest, rfl⟩, -, -, h15, h6⟩ := accepted_header_facts hp
  rw [List.take_append_of_le_length (by omega)]; exact h6

/-! ## Faithful decoding -/

/-- What the decoded value says about the text, by protocol:
* TCP4: the line is the canonical text of the value — `PROXY TCP4`, the two addresses in
  dotted-quad `Display` form, the two ports in decimal `Display` form, single spaces, CR LF
  (`V1.Addresses.format`);
* TCP6: the line is `PROXY TCP6 sa da sp dp\r\n` with the ports in decimal `Display` form
  and `sa`, `da` texts without SP/CR that the std parser model maps to the two addresses;
* UNKNOWN: the line is `PROXY UNKNOWN`, then nothing or a space and CR-free text, then CR LF. -/
theorem decoded_fields {x : B} {h : V1.Header} (hp : V1.parseBytes x = .ok h) :
    match h.addresses with
    | .tcp4 a => h.header = V1.Addresses.format (.tcp4 a)
    | .tcp6 a => ∃ sa da, StdNet.parseIpv6 sa = some a.srcAddr ∧ StdNet.parseIpv6 da = some a.dstAddr ∧
        V1.sepFree sa ∧ V1.sepFree da ∧
        h.header = V1.PROXY ++ [V1.SP] ++ V1.TCP6 ++ [V1.SP] ++ sa ++ [V1.SP] ++ da ++ [V1.SP] ++
          StdInt.dec a.srcPort.toNat ++ [V1.SP] ++ StdInt.dec a.dstPort.toNat ++ V1.CRLF
    | .unknown => ∃ tail, (tail = [] ∨ tail.head? = some V1.SP) ∧ V1.crFree tail ∧
        h.header = V1.PROXY ++ [V1.SP] ++ V1.UNKNOWN ++ tail ++ V1.CRLF := by
  obtain ⟨rest, -, -, -, hl⟩ := (bytes_accept_iff_partial x h).mp hp
  obtain ⟨hdr, addr⟩ := h
  simp only at hl ⊢
  cases hl with
  | unknown tail h1 h2 => exact ⟨tail, h1, h2, rfl⟩
  | tcp4 sa da sp dp a b p q hsa hda hsp hdp =>
    simp only
    rw [(ipv4Text_iff_display _ _).mp hsa, (ipv4Text_iff_display _ _).mp hda,
      (portText_iff_dec _ _).mp hsp, (portText_iff_dec _ _).mp hdp]
    rfl
  | tcp6 sa da sp dp a b p q hsa hda hsp hdp =>
    simp only
    rw [(portText_iff_dec _ _).mp hsp, (portText_iff_dec _ _).mp hdp]
    exact ⟨sa, da, hsa.1, hda.1, hsa.2, hda.2, rfl⟩

/-! ## Non-vacuity -/

/-- `PROXY UNKNOWN\r\n` -/
private def unk : B := [0x50,0x52,0x4F,0x58,0x59,0x20,0x55,0x4E,0x4B,0x4E,0x4F,0x57,0x4E,0x0D,0x0A]

example : Spec.V1.Line V1.ip6Model unk .unknown := Spec.V1.Line.unknown [] (.inl rfl) (by simp)

/-- `PROXY UNKNOWN\r\n` followed by payload is accepted by every entry point, with the
line as header. -/
example : V1.parseBytes (unk ++ [0x47, 0x45, 0x54]) = .ok ⟨unk, .unknown⟩ := by decide
example : V1.parseStr (unk ++ [0x47, 0x45, 0x54]) = .ok ⟨unk, .unknown⟩ := by decide
example : V1.parseBytes (unk ++ [0x47, 0x45, 0x54]) = .ok ⟨unk, .unknown⟩ :=
  (bytes_accept_iff_partial _ ⟨unk, .unknown⟩).mpr
    ⟨_, rfl, by decide, by decide, Spec.V1.Line.unknown [] (.inl rfl) (by simp)⟩

/-- A digit string is `Decimal` for its value. -/
private theorem dec1 : Spec.V1.Decimal [0x31] 1 := by
  refine ⟨by simp, ?_, by simp, rfl⟩
  intro c hc; simp only [List.mem_singleton] at hc; subst hc; exact ⟨by decide, by decide⟩
private theorem dec2 : Spec.V1.Decimal [0x32] 2 := by
  refine ⟨by simp, ?_, by simp, rfl⟩
  intro c hc; simp only [List.mem_singleton] at hc; subst hc; exact ⟨by decide, by decide⟩
private theorem dec80 : Spec.V1.Decimal [0x38, 0x30] 80 := by
  refine ⟨by simp, ?_, by simp, rfl⟩
  intro c hc; simp only [List.mem_cons, List.not_mem_nil, or_false] at hc
  rcases hc with rfl | rfl <;> exact ⟨by decide, by decide⟩
private theorem dec443 : Spec.V1.Decimal [0x34, 0x34, 0x33] 443 := by
  refine ⟨by simp, ?_, by simp, rfl⟩
  intro c hc; simp only [List.mem_cons, List.not_mem_nil, or_false] at hc
  rcases hc with rfl | rfl | rfl <;> exact ⟨by decide, by decide⟩

/-- `1.1.1.1` and `2.2.2.2` -/
private def ip1 : B := [0x31,0x2E,0x31,0x2E,0x31,0x2E,0x31]
private def ip2 : B := [0x32,0x2E,0x32,0x2E,0x32,0x2E,0x32]

/-- `PROXY TCP4 1.1.1.1 2.2.2.2 80 443\r\n`: a well-formed line with distinct source and
destination, denoting exactly those four values. -/
private theorem tcp4_line :
    Spec.V1.Line V1.ip6Model
      (V1.PROXY ++ [V1.SP] ++ V1.TCP4 ++ [V1.SP] ++ ip1 ++ [V1.SP] ++ ip2 ++ [V1.SP] ++ [0x38, 0x30] ++
        [V1.SP] ++ [0x34, 0x34, 0x33] ++ [V1.CR, V1.LF])
      (.tcp4 { srcAddr := ⟨1, 1, 1, 1⟩, srcPort := 80, dstAddr := ⟨2, 2, 2, 2⟩, dstPort := 443 }) :=
  Spec.V1.Line.tcp4 ip1 ip2 [0x38, 0x30] [0x34, 0x34, 0x33] ⟨1, 1, 1, 1⟩ ⟨2, 2, 2, 2⟩ 80 443
    ⟨[0x31], [0x31], [0x31], [0x31], dec1, dec1, dec1, dec1, rfl⟩
    ⟨[0x32], [0x32], [0x32], [0x32], dec2, dec2, dec2, dec2, rfl⟩ dec80 dec443

/-- … so the parser accepts it (followed by anything) and reports those values. -/
example (rest : B) :
    V1.parseBytes ((V1.PROXY ++ [V1.SP] ++ V1.TCP4 ++ [V1.SP] ++ ip1 ++ [V1.SP] ++ ip2 ++ [V1.SP] ++
        [0x38, 0x30] ++ [V1.SP] ++ [0x34, 0x34, 0x33] ++ [V1.CR, V1.LF]) ++ rest) =
      .ok ⟨V1.PROXY ++ [V1.SP] ++ V1.TCP4 ++ [V1.SP] ++ ip1 ++ [V1.SP] ++ ip2 ++ [V1.SP] ++
        [0x38, 0x30] ++ [V1.SP] ++ [0x34, 0x34, 0x33] ++ [V1.CR, V1.LF],
        .tcp4 { srcAddr := ⟨1, 1, 1, 1⟩, srcPort := 80, dstAddr := ⟨2, 2, 2, 2⟩, dstPort := 443 }⟩ :=
  (bytes_accept_iff_partial _ _).mpr ⟨rest, rfl, by decide, by decide, tcp4_line⟩

/-- A line that is not well-formed (two spaces) is rejected. -/
example : V1.parseBytes [0x50,0x52,0x4F,0x58,0x59,0x20,0x20,0x55,0x4E,0x4B,0x4E,0x4F,0x57,0x4E,0x0D,0x0A] =
    .error (.parse .invalidProtocol) := by decide

/-! ## The full statement: RFC 4291 text forms for the IPv6 addresses

`StdNet.parseIpv6_iff_text` (Lemmas/Ipv6Grammar.lean) shows that the model of
`Ipv6Addr::from_str` accepts exactly `Spec.V1.Ipv6Text`, the RFC 4291 section 2.2
grammar, and that every accepted text is free of SP / CR. Hence the parameter of
the `_partial` theorems can be replaced by the grammar itself. -/

theorem ip6Model_iff_text (s : B) (a : Ip6) : V1.ip6Model s a ↔ Spec.V1.Ipv6Text s a := by
  constructor
  · rintro ⟨h, -⟩; exact (StdNet.parseIpv6_iff_text s a).mp h
  · intro h
    have hp := (StdNet.parseIpv6_iff_text s a).mpr h
    refine ⟨hp, ?_⟩
    intro c hc
    have := StdNet.parseIpv6_sepFree s a hp c hc
    simp only [V1.isSep, V1.SP, V1.CR, Bool.or_eq_false_iff, beq_eq_false_iff_ne, ne_eq]
    exact this

theorem line_mono {p q : B → Ip6 → Prop} (hpq : ∀ s a, p s a → q s a) {w : B} {addr : V1.Addresses}
    (hl : Spec.V1.Line p w addr) : Spec.V1.Line q w addr := by
  cases hl with
  | unknown tail h1 h2 => exact .unknown tail h1 h2
  | tcp4 sa da sp dp a b p' q' h1 h2 h3 h4 => exact .tcp4 sa da sp dp a b p' q' h1 h2 h3 h4
  | tcp6 sa da sp dp a b p' q' h1 h2 h3 h4 => exact .tcp6 sa da sp dp a b p' q' (hpq _ _ h1) (hpq _ _ h2) h3 h4

theorem line_iff_text (w : B) (addr : V1.Addresses) :
    Spec.V1.Line V1.ip6Model w addr ↔ Spec.V1.Line Spec.V1.Ipv6Text w addr :=
  ⟨line_mono (fun s a => (ip6Model_iff_text s a).mp), line_mono (fun s a => (ip6Model_iff_text s a).mpr)⟩

/-- **C01 (bytes).** `TryFrom<&[u8]>` succeeds with result `h` if and only if the
input starts with a line of at most 107 bytes that is valid UTF-8 and is a
well-formed PROXY v1 line (`Spec.V1.Line` with dotted-quad IPv4, RFC 4291 IPv6
text and plain decimal ports), and then `h` reports exactly that line and
exactly the addresses it denotes. -/
theorem bytes_accept_iff (x : B) (h : V1.Header) :
    V1.parseBytes x = .ok h ↔ ∃ rest, x = h.header ++ rest ∧ h.header.length ≤ 107 ∧
      Utf8.valid h.header = true ∧ Spec.V1.Line Spec.V1.Ipv6Text h.header h.addresses := by
  rw [bytes_accept_iff_partial]
  simp only [line_iff_text]

/-- **C01 (text).** The same for `TryFrom<&str>` (and, by `fromStrHeader_eq`, for
`FromStr for Header`) on every valid UTF-8 string. -/
theorem str_accept_iff (x : B) (hx : Utf8.valid x = true) (h : V1.Header) :
    V1.parseStr x = .ok h ↔ ∃ rest, x = h.header ++ rest ∧ h.header.length ≤ 107 ∧
      Spec.V1.Line Spec.V1.Ipv6Text h.header h.addresses := by
  rw [str_accept_iff_partial x hx]
  simp only [line_iff_text]

/-- **C01 (`FromStr for Header`).** `"…".parse::<Header>()` on a valid UTF-8 string succeeds
with result `h` if and only if the string starts with a well-formed PROXY v1 line (RFC 4291
text for the IPv6 addresses) of at most 107 bytes; `h` reports exactly that line and the
addresses it denotes. -/
theorem fromStrHeader_accept_iff (x : B) (hx : Utf8.valid x = true) (h : V1.Header) :
    V1.fromStrHeader x = .ok h ↔ ∃ rest, x = h.header ++ rest ∧ h.header.length ≤ 107 ∧
      Spec.V1.Line Spec.V1.Ipv6Text h.header h.addresses := by
  rw [fromStrHeader_accept_iff_partial x hx]
  simp only [line_iff_text]

/-- **C01 (`FromStr for Addresses`).** `"…".parse::<Addresses>()` on a valid UTF-8 string
succeeds with result `a` if and only if the string starts with a well-formed PROXY v1 line
(RFC 4291 text for the IPv6 addresses) of at most 107 bytes that denotes `a`. -/
theorem fromStrAddresses_accept_iff (x : B) (hx : Utf8.valid x = true) (a : V1.Addresses) :
    V1.fromStrAddresses x = .ok a ↔
      ∃ hdr rest, x = hdr ++ rest ∧ hdr.length ≤ 107 ∧ Spec.V1.Line Spec.V1.Ipv6Text hdr a := by
  rw [fromStrAddresses_accept_iff_partial x hx]
  simp only [line_iff_text]

/-- **C01 (decoding is a function of the text).** The RFC 4291 grammar is functional: one
text denotes at most one address, so "the addresses the line denotes" in the theorems
above is unambiguous for TCP6 as well. -/
theorem ipv6Text_functional {s : B} {a b : Ip6}
    (ha : Spec.V1.Ipv6Text s a) (hb : Spec.V1.Ipv6Text s b) : a = b := by
  have h1 := (StdNet.parseIpv6_iff_text s a).mpr ha
  have h2 := (StdNet.parseIpv6_iff_text s b).mpr hb
  rw [h1] at h2
  exact Option.some.inj h2

/-- **C01 (panic-aware, bytes).** The link to the panic-aware model of `TryFrom<&[u8]>`:
it never panics, and returns `Ok(h)` exactly on the inputs that start with a well-formed
line of at most 107 bytes of valid UTF-8, reporting that line and its addresses. -/
theorem bytesP_accept_iff (x : B) (h : V1.Header) :
    V1.parseBytesP x = .val (.ok h) ↔ ∃ rest, x = h.header ++ rest ∧ h.header.length ≤ 107 ∧
      Utf8.valid h.header = true ∧ Spec.V1.Line Spec.V1.Ipv6Text h.header h.addresses := by
  rw [V1.parseBytes_no_panic, ← bytes_accept_iff]
  exact ⟨fun e => Outcome.val.inj e, fun e => congrArg _ e⟩

/-- **C01 (panic-aware, text).** The same for the panic-aware model of `TryFrom<&str>` on
every valid UTF-8 string. -/
theorem strP_accept_iff (x : B) (hx : Utf8.valid x = true) (h : V1.Header) :
    V1.parseStrP x = .val (.ok h) ↔ ∃ rest, x = h.header ++ rest ∧ h.header.length ≤ 107 ∧
      Spec.V1.Line Spec.V1.Ipv6Text h.header h.addresses := by
  rw [V1.parseStr_no_panic x hx, ← str_accept_iff x hx]
  exact ⟨fun e => Outcome.val.inj e, fun e => congrArg _ e⟩

/-- Every input is either rejected or accepted by the real (panic-aware) byte entry point
— it never panics — and acceptance is decided by the grammar alone. -/
theorem bytesP_val_or_error (x : B) :
    (∃ h, V1.parseBytesP x = .val (.ok h)) ∨ (∃ e, V1.parseBytesP x = .val (.error e)) := by
  rw [V1.parseBytes_no_panic]
  cases V1.parseBytes x with
  | ok h => exact .inl ⟨h, rfl⟩
  | error e => exact .inr ⟨e, rfl⟩

/-! ### Non-vacuity of the additions -/

/-- `PROXY TCP6 ::1 ::2 80 443\r\n` -/
private def tcp6line : B :=
  [0x50,0x52,0x4F,0x58,0x59,0x20,0x54,0x43,0x50,0x36,0x20,0x3A,0x3A,0x31,0x20,0x3A,0x3A,0x32,0x20,
   0x38,0x30,0x20,0x34,0x34,0x33,0x0D,0x0A]
private def one6 : Ip6 := ⟨[0, 0, 0, 0, 0, 0, 0, 0, 0, 0, 0, 0, 0, 0, 0, 1], rfl⟩
private def two6 : Ip6 := ⟨[0, 0, 0, 0, 0, 0, 0, 0, 0, 0, 0, 0, 0, 0, 0, 2], rfl⟩
private def tcp6hdr : V1.Header :=
  ⟨tcp6line, .tcp6 { srcAddr := one6, srcPort := 80, dstAddr := two6, dstPort := 443 }⟩

/-- `::1` is an RFC 4291 text of the address `0…01` (hypothesis of `ipv6Text_functional`). -/
example : Spec.V1.Ipv6Text [0x3A, 0x3A, 0x31] one6 :=
  (StdNet.parseIpv6_iff_text _ _).mp (by decide)

/-- … and, by functionality, of no other address. -/
example : ¬ Spec.V1.Ipv6Text [0x3A, 0x3A, 0x31] two6 := fun h =>
  absurd (ipv6Text_functional h ((StdNet.parseIpv6_iff_text _ one6).mp (by decide))) (by decide)

set_option maxRecDepth 8000 in
/-- The TCP6 line followed by `GET` is valid UTF-8 and accepted by both `FromStr` impls;
the iff then yields a grammar derivation with RFC 4291 address texts. -/
example : Utf8.valid (tcp6line ++ [0x47, 0x45, 0x54]) = true ∧
    V1.fromStrHeader (tcp6line ++ [0x47, 0x45, 0x54]) = .ok tcp6hdr ∧
    V1.fromStrAddresses (tcp6line ++ [0x47, 0x45, 0x54]) = .ok tcp6hdr.addresses := by decide

set_option maxRecDepth 8000 in
example : ∃ rest, tcp6line ++ [0x47, 0x45, 0x54] = tcp6hdr.header ++ rest ∧ tcp6hdr.header.length ≤ 107 ∧
    Spec.V1.Line Spec.V1.Ipv6Text tcp6hdr.header tcp6hdr.addresses :=
  (fromStrHeader_accept_iff _ (by decide) tcp6hdr).mp (by decide)

set_option maxRecDepth 8000 in
example : V1.parseBytesP (tcp6line ++ [0x47, 0x45, 0x54]) = .val (.ok tcp6hdr) := by
  rw [V1.parseBytes_no_panic]; exact congrArg _ (by decide)

/-- The panic-aware text entry point accepts `PROXY UNKNOWN\r\nGET`, via the grammar. -/
example : V1.parseStrP (unk ++ [0x47, 0x45, 0x54]) = .val (.ok ⟨unk, .unknown⟩) :=
  (strP_accept_iff _ (by decide) ⟨unk, .unknown⟩).mpr
    ⟨_, rfl, by decide, Spec.V1.Line.unknown [] (.inl rfl) (by simp)⟩

end C01
