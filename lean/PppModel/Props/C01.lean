import PppModel.Auto

/-! # C01 (theorems under construction) -/

namespace C01
end C01
