import PppModel.Lemmas.V2NoPanic
import PppModel.Lemmas.V1NoPanic
import PppModel.Props.C11
import PppModel.Props.C15

/-!
# C03 — parsing, accessors and iteration never panic or hang on any input

The driver that is compared with the real crate runs the *panic-aware* layer of
the model (`…P` functions, which `panic` wherever the Rust would: index or slice
out of range, `&str` slice off a character boundary, `copy_from_slice` length
mismatch, `usize` subtraction underflow). The theorems below say that this layer
never panics and agrees with the pure layer all other theorems are about.
Because no `subP` ever underflows, overflow-checked and unchecked builds agree.

"No hang": every model function is total (structural or well-founded recursion
accepted by Lean); the iterator makes strict progress (`tlv_progress`). That the
*Rust* loops terminate is observed by the harness (step cap), see DESIGN.md 11.
-/

namespace C03

/-- `v1::Header::try_from(&[u8])`: every byte string. -/
theorem parseBytes_no_panic (x : B) : V1.parseBytesP x = .val (V1.parseBytes x) :=
  V1.parseBytes_no_panic x

/-- `v1::Header::try_from(&str)` and both `FromStr` impls (they add no partial
operation): every valid UTF-8 string, including multi-byte characters adjacent
to the CR. -/
theorem parseStr_no_panic (x : B) (hx : Utf8.valid x = true) : V1.parseStrP x = .val (V1.parseStr x) :=
  V1.parseStr_no_panic x hx

/-- `v2::Header::try_from(&[u8])`: every byte string. -/
theorem v2_parse_no_panic (x : B) : V2.parseP x = .val (V2.parse x) := V2.parseP_eq x

/-- `HeaderResult::parse`: every byte string. -/
theorem auto_parse_no_panic (x : B) : Auto.parseP x = .val (Auto.parse x) := by
  simp only [Auto.parseP, Auto.parse, V2.parseP_eq, V1.parseBytes_no_panic, Outcome.val_bind]
  split <;> rfl

/-- Accessors of an accepted v2 header: `length`, `address_bytes`, `tlv_bytes`
(and `tlvs()`, which is `tlv_bytes` plus the iterator below). `len`, `is_empty`,
`address_family`, `as_bytes`, `Display`, `to_owned` have no partial operation. -/
theorem v2_accessors_no_panic {x : B} {h : V2.Header} (hp : V2.parse x = .ok h) :
    h.lengthP = .val h.length ∧ h.addressBytesEndP = .val h.addressBytesEnd ∧
    h.addressBytesP = .val h.addressBytes ∧ h.tlvBytesP = .val h.tlvBytes :=
  V2.accepted_accessors hp

/-- `addresses_str` of an accepted v1 header (the only v1 accessor with index
arithmetic and `&str` slicing); `protocol`, `Display`, `to_owned` are total. -/
theorem v1_accessors_no_panic {x : B} {h : V1.Header} :
    (V1.parseBytes x = .ok h → h.addressesStrP = .val h.addressesStr) ∧
    (Utf8.valid x = true → V1.parseStr x = .ok h → h.addressesStrP = .val h.addressesStr) :=
  ⟨C15.parse_accessors_no_panic, C15.parseStr_accessors_no_panic⟩

/-- `TypeLengthValues::next`: every iterator state over every byte slice. -/
theorem tlv_next_no_panic (it : V2.Iter) : it.nextP = .val it.next := V2.nextP_eq it

/-- Iterating a section of `n` bytes ends after at most `n / 3 + 1` items. -/
theorem tlv_count_bound (bs : B) : (V2.tlvCollect bs).length ≤ bs.length / 3 + 1 := C11.count_bound bs

/-- The cursor moves strictly forward on every item and stays inside the section;
once it reaches the end `next` returns `None`, and keeps doing so. -/
theorem tlv_progress (it it' : V2.Iter) (i : V2.Item) (h : it.next = some (i, it')) :
    it.offset < it'.offset ∧ it'.bytes = it.bytes ∧ it'.offset ≤ it.bytes.length :=
  V2.next_offset_ge it it' i h

theorem tlv_fused (it : V2.Iter) : it.next = none ↔ it.bytes.length ≤ it.offset := V2.next_none_iff it

/-- Non-vacuity: the boundary cases the property names. -/
example : V1.parseStrP [0x0D, 0xE2, 0x82, 0xAC] = .val (.error .invalidSuffix) := by decide
example : V2.parseP [0x0D, 0x0A] = .val (.error (.incomplete 2)) := by decide
example : (V2.Iter.ofBytes [4, 0xFF, 0xFF]).nextP =
    .val (some (.error (.invalidTLV 4 65535), { bytes := [4, 0xFF, 0xFF], offset := 3 })) := by decide

/-! ### Additions after audit 4

Correction to the doc comment of `v2_accessors_no_panic` above: `Display` for `v2::Header`
is *not* free of partial operations, it calls `self.length()` (`src/v2/model.rs:141-151`);
`v2_display_no_panic` below covers it. -/

/-- "every … formatter": `impl Display for v2::Header` calls `self.length()`, i.e. the
partial slice `self.header[16..]`; on every accepted header it returns normally with the
text of the pure model. (The v1 `Display` impls copy `self.header` / format total `std`
values and have no partial operation.) -/
theorem v2_display_no_panic {x : B} {h : V2.Header} (hp : V2.parse x = .ok h) :
    h.displayP = .val h.display :=
  V2.Header.displayP_eq h (V2.accepted_len hp)

/-- Non-vacuity: `displayP` does panic on a header value that no parser returns (fewer than
16 bytes), and does not on the accepted minimal LOCAL header. -/
example : V2.Header.displayP
    { header := [0x0D, 0x0A], version := .two, command := .loc, protocol := .unspec,
      addresses := .unspec } = .panic := by decide
example : (V2.parse [0x0D, 0x0A, 0x0D, 0x0A, 0x00, 0x0D, 0x0A, 0x51, 0x55, 0x49, 0x54, 0x0A,
    0x20, 0x00, 0x00, 0x00]).toOption.map (fun h => h.lengthP) = some (.val 0) := by decide

/-- The whole loop in the panic layer: any number of `next` calls, each through `nextP`. -/
theorem tlv_run_no_panic (fuel : Nat) (it : V2.Iter) :
    V2.Iter.runP fuel it = .val (V2.Iter.run fuel it) := V2.runP_eq fuel it

/-- "accessors … and TLV iteration on the values they return", end to end in the panic
layer: `header.tlvs().collect()` on an accepted header (the partial `tlv_bytes()` slice,
then the loop over the partial `next`) returns normally, with exactly the items of the pure
model, for every step cap `f` larger than the section (the Rust loop has no cap). -/
theorem tlvs_no_panic {x : B} {h : V2.Header} (hp : V2.parse x = .ok h) (f : Nat)
    (hf : h.tlvBytes.length < f) :
    (do let bs ← h.tlvBytesP; V2.Iter.runP f (V2.Iter.ofBytes bs)) = .val h.tlvs := by
  rw [(V2.accepted_accessors hp).2.2.2]
  simp only [Outcome.val_bind]
  rw [V2.runP_eq, C11.fuel_irrelevant _ _ hf]
  rfl

/-- Non-vacuity of `tlvs_no_panic`: an accepted IPv4 header with a 4-byte section, cap 5. -/
example : (V2.parse [0x0D, 0x0A, 0x0D, 0x0A, 0x00, 0x0D, 0x0A, 0x51, 0x55, 0x49, 0x54, 0x0A,
    0x21, 0x11, 0x00, 0x10, 127, 0, 0, 1, 192, 168, 1, 1, 0, 80, 1, 187, 4, 0, 1, 42]).toOption.map
    (fun h => (h.tlvBytes.length, (do let bs ← h.tlvBytesP; V2.Iter.runP 5 (V2.Iter.ofBytes bs)))) =
    some (4, .val [.ok ⟨4, [42]⟩]) := by decide

/-- "Iterating a TLV section of n bytes ends after at most n/3 + 1 items", about `next`
itself and with no fuel anywhere: after some `k ≤ n / 3 + 1` calls that each yielded an
item, the next call returns `None`. -/
theorem tlv_ends (bs : B) :
    ∃ k, k ≤ bs.length / 3 + 1 ∧ ∃ it, V2.Iter.iterate k (V2.Iter.ofBytes bs) = some it ∧
      it.next = none :=
  V2.iterate_ends bs.length (V2.Iter.ofBytes bs) rfl

/-- Non-vacuity / tightness of `tlv_ends`: a 4-byte section (4 / 3 + 1 = 2) needs exactly
two items (one TLV, one `Leftovers` error) before `None`. -/
example : (V2.Iter.iterate 2 (V2.Iter.ofBytes [4, 0, 0, 9])).map (fun it => (it, it.next)) =
    some ({ bytes := [4, 0, 0, 9], offset := 4 }, none) := by decide

/-- `HeaderResult::parse` returns the values of the two dedicated parsers, so the accessor
theorems (whose hypotheses are `V1.parseBytes x = .ok h` / `V2.parse x = .ok h`) apply to
the values it returns. -/
theorem auto_accessors (x : B) :
    (∀ r, Auto.parse x = .v1 r → r = V1.parseBytes x) ∧
    (∀ r, Auto.parse x = .v2 r → r = V2.parse x) := by
  unfold Auto.parse
  constructor <;> intro r hr <;> dsimp only at hr <;> split at hr <;> cases hr <;> rfl

/-- Accessors, formatter and TLV iteration on the headers `HeaderResult::parse` returns. -/
theorem auto_accessors_no_panic (x : B) :
    (∀ h, Auto.parse x = .v1 (.ok h) → h.addressesStrP = .val h.addressesStr) ∧
    (∀ h, Auto.parse x = .v2 (.ok h) →
      h.lengthP = .val h.length ∧ h.addressBytesEndP = .val h.addressBytesEnd ∧
      h.addressBytesP = .val h.addressBytes ∧ h.tlvBytesP = .val h.tlvBytes ∧
      h.displayP = .val h.display ∧
      ∀ f, h.tlvBytes.length < f →
        (do let bs ← h.tlvBytesP; V2.Iter.runP f (V2.Iter.ofBytes bs)) = .val h.tlvs) := by
  obtain ⟨a1, a2⟩ := auto_accessors x
  constructor
  · intro h hh
    exact v1_accessors_no_panic.1 (a1 _ hh).symm
  · intro h hh
    have hp : V2.parse x = .ok h := (a2 _ hh).symm
    obtain ⟨p1, p2, p3, p4⟩ := v2_accessors_no_panic hp
    exact ⟨p1, p2, p3, p4, v2_display_no_panic hp, fun f hf => tlvs_no_panic hp f hf⟩

/-- Non-vacuity: both tags occur with an accepted header. -/
example : (Auto.parse [0x0D, 0x0A, 0x0D, 0x0A, 0x00, 0x0D, 0x0A, 0x51, 0x55, 0x49, 0x54, 0x0A,
    0x20, 0x00, 0x00, 0x00]).isV2 = true ∧
    (Auto.parse [0x0D, 0x0A, 0x0D, 0x0A, 0x00, 0x0D, 0x0A, 0x51, 0x55, 0x49, 0x54, 0x0A,
    0x20, 0x00, 0x00, 0x00]).cls = .ok := by decide
example : (Auto.parse [0x50, 0x52, 0x4F, 0x58, 0x59, 0x20, 0x55, 0x4E, 0x4B, 0x4E, 0x4F, 0x57, 0x4E,
    0x0D, 0x0A]).isV2 = false ∧
    (Auto.parse [0x50, 0x52, 0x4F, 0x58, 0x59, 0x20, 0x55, 0x4E, 0x4B, 0x4E, 0x4F, 0x57, 0x4E,
    0x0D, 0x0A]).cls = .ok := by decide

/-- "&str / FromStr entry points": `impl FromStr for Header<'static>` is
`Header::try_from(s)?.to_owned()`; it adds no partial operation. -/
theorem fromStrHeader_no_panic (x : B) (hx : Utf8.valid x = true) :
    V1.fromStrHeaderP x = .val (V1.fromStrHeader x) := by
  unfold V1.fromStrHeaderP V1.fromStrHeader
  rw [parseStr_no_panic x hx]
  cases V1.parseStr x <;> rfl

/-- `impl FromStr for Addresses` is `Header::try_from(s)?.addresses`. -/
theorem fromStrAddresses_no_panic (x : B) (hx : Utf8.valid x = true) :
    V1.fromStrAddressesP x = .val (V1.fromStrAddresses x) := by
  unfold V1.fromStrAddressesP V1.fromStrAddresses
  rw [parseStr_no_panic x hx]
  cases V1.parseStr x <;> rfl

/-- Non-vacuity: the adversarial `&str` of the property text (`"\r€"`) is valid UTF-8 and
goes through both `FromStr` impls. -/
example : Utf8.valid [0x0D, 0xE2, 0x82, 0xAC] = true ∧
    V1.fromStrHeaderP [0x0D, 0xE2, 0x82, 0xAC] = .val (.error .invalidSuffix) ∧
    V1.fromStrAddressesP [0x0D, 0xE2, 0x82, 0xAC] = .val (.error .invalidSuffix) := by decide

/-- "no panic (including arithmetic overflow in overflow-checked builds)", the additions.
The model computes every `usize` sum on unbounded `Nat` (assumption A3); this theorem lists
every addition in the parsers, the accessors and the iterator with its exact bound:

* `MINIMUM_LENGTH + length` (`v2/mod.rs:133`) is at most 65551;
* `MINIMUM_LENGTH + address_family_bytes` (`v2/mod.rs:142`) is at most 232;
* `MINIMUM_TLV_LENGTH + length as usize` (`v2/model.rs:251`) is at most 65538;
* `self.offset += tlv_length` (`v2/model.rs:258`, executed on the item path only): the new
  cursor is that sum and it is at most the section length;
* `MINIMUM_LENGTH + min(address_bytes, length)` (`v2/model.rs:191`) is at most the header
  length + 16 on any header value, and at most the header length once 16 bytes are there;
* `suffix + PROTOCOL_SUFFIX.len()` (`v1/mod.rs:189,208`) is at most the input length + 1,
  and `index + 1` (`v1/mod.rs:44`) at most the input length;
* `PROTOCOL_PREFIX.len() + 1 + protocol().len()` (`v1/model.rs:126`) is at most 13. -/
theorem sums_bounded :
    (∀ a b : UInt8, V2.minLen + be16 a b ≤ 65551) ∧
    (∀ f : V2.Family, V2.minLen + f.size ≤ 232) ∧
    (∀ a b : UInt8, V2.minTlvLen + be16 a b ≤ 65538) ∧
    (∀ (it it' : V2.Iter) (t : V2.Tlv), it.next = some (.ok t, it') →
      it'.offset = it.offset + (V2.minTlvLen + t.value.length) ∧
      it'.offset ≤ it.bytes.length) ∧
    (∀ h : V2.Header, h.addressBytesEnd ≤ h.header.length + 16 ∧
      (16 ≤ h.header.length → h.addressBytesEnd ≤ h.header.length)) ∧
    (∀ (x : B) (i : Nat), V1.firstCR x = some i →
      i + V1.CRLF.length ≤ x.length + 1 ∧ i + 1 ≤ x.length) ∧
    (∀ h : V1.Header, V1.PROXY.length + 1 + h.protocol.length ≤ 13) := by
  refine ⟨?_, ?_, ?_, ?_, ?_, ?_, ?_⟩
  · intro a b; have := be16_lt a b; simp only [V2.minLen]; omega
  · intro f; cases f <;> decide
  · intro a b; have := be16_lt a b; simp only [V2.minTlvLen]; omega
  · intro it it' t h
    obtain ⟨h1, h2, -, -⟩ := V2.next_ok_offset h
    exact ⟨h1, h2⟩
  · intro h
    simp only [V2.Header.addressBytesEnd, V2.Header.length, List.length_drop, V2.minLen]
    omega
  · intro x i h
    have := V1.firstCR_lt h
    simp only [V1.CRLF, List.length_cons, List.length_nil]
    omega
  · intro h
    simp only [V1.Header.protocol]
    cases h.addresses <;> simp only [V1.Addresses.protocol] <;> decide

/-- Assumption A3 made explicit: let `max` be the largest `usize` and let the input `x`
satisfy `x.length + 65551 ≤ max` (on a 64-bit target: any input shorter than 2^63 bytes).
Then every sum computed while parsing `x` (text or binary), while calling the accessors of
the header parsed from `x`, and while iterating any TLV section no longer than `x` (in
particular the section of that header) is at most `max`: no addition overflows, so
overflow-checked and unchecked builds agree. -/
theorem sums_no_overflow (max : Nat) (x : B) (hmax : x.length + 65551 ≤ max) :
    V2.minLen + be16 (byteAt x 14) (byteAt x 15) ≤ max ∧
    (∀ f : V2.Family, V2.minLen + f.size ≤ max) ∧
    (∀ i, V1.firstCR x = some i → i + V1.CRLF.length ≤ max ∧ i + 1 ≤ max) ∧
    (∀ h : V1.Header, V1.PROXY.length + 1 + h.protocol.length ≤ max) ∧
    (∀ h, V2.parse x = .ok h →
      h.addressBytesEnd ≤ max ∧ h.tlvBytes.length ≤ x.length) ∧
    (∀ it : V2.Iter, it.bytes.length ≤ x.length →
      V2.minTlvLen + be16 (byteAt (it.bytes.drop it.offset) 1) (byteAt (it.bytes.drop it.offset) 2) ≤ max ∧
      ∀ it' t, it.next = some (.ok t, it') →
        it'.offset = it.offset + (V2.minTlvLen + t.value.length) ∧ it'.offset ≤ max) := by
  obtain ⟨s1, s2, s3, s4, s5, s6, s7⟩ := sums_bounded
  refine ⟨?_, ?_, ?_, ?_, ?_, ?_⟩
  · have := s1 (byteAt x 14) (byteAt x 15); omega
  · intro f; have := s2 f; omega
  · intro i h; have := s6 x i h; omega
  · intro h; have := s7 h; omega
  · intro h hp
    have hl := V2.accepted_len hp
    have hx : h.header.length ≤ x.length := by
      obtain ⟨cmd, tr, addr, rest, trail, -, rfl, rfl⟩ := (C02.accept_iff x h).mp hp
      simp
    have := (s5 h).2 hl
    refine ⟨by omega, ?_⟩
    simp only [V2.Header.tlvBytes, List.length_drop]
    omega
  · intro it hit
    refine ⟨?_, ?_⟩
    · have := s3 (byteAt (it.bytes.drop it.offset) 1) (byteAt (it.bytes.drop it.offset) 2); omega
    · intro it' t h
      obtain ⟨h1, h2⟩ := s4 it it' t h
      exact ⟨h1, by omega⟩

/-- Non-vacuity of `sums_no_overflow`: `max = 2^64 - 1` and the bounds are attained
(declared length 65535: `16 + 65535 = 65551`, `3 + 65535 = 65538`). -/
example : ([] : B).length + 65551 ≤ 2 ^ 64 - 1 := by decide
example : V2.minLen + be16 0xFF 0xFF = 65551 ∧ V2.minTlvLen + be16 0xFF 0xFF = 65538 ∧
    V2.minLen + V2.Family.unix.size = 232 := by decide

end C03
