import PppModel.Auto

/-! # C03 (theorems under construction) -/

namespace C03
end C03
