import PppModel.Lemmas.V2NoPanic
import PppModel.Lemmas.V1NoPanic
import PppModel.Props.C11
import PppModel.Props.C15

/-!
# C03 — parsing, accessors and iteration never panic or hang on any input

The driver that is compared with the real crate runs the *panic-aware* layer of
the model (`…P` functions, which `panic` wherever the Rust would: index or slice
out of range, `&str` slice off a character boundary, `copy_from_slice` length
mismatch, `usize` subtraction underflow). The theorems below say that this layer
never panics and agrees with the pure layer all other theorems are about.
Because no `subP` ever underflows, overflow-checked and unchecked builds agree.

"No hang": every model function is total (structural or well-founded recursion
accepted by Lean); the iterator makes strict progress (`tlv_progress`). That the
*Rust* loops terminate is observed by the harness (step cap), see DESIGN.md 11.
-/

namespace C03

/-- `v1::Header::try_from(&[u8])`: every byte string. -/
theorem parseBytes_no_panic (x : B) : V1.parseBytesP x = .val (V1.parseBytes x) :=
  V1.parseBytes_no_panic x

/-- `v1::Header::try_from(&str)` and both `FromStr` impls (they add no partial
operation): every valid UTF-8 string, including multi-byte characters adjacent
to the CR. -/
theorem parseStr_no_panic (x : B) (hx : Utf8.valid x = true) : V1.parseStrP x = .val (V1.parseStr x) :=
  V1.parseStr_no_panic x hx

/-- `v2::Header::try_from(&[u8])`: every byte string. -/
theorem v2_parse_no_panic (x : B) : V2.parseP x = .val (V2.parse x) := V2.parseP_eq x

/-- `HeaderResult::parse`: every byte string. -/
theorem auto_parse_no_panic (x : B) : Auto.parseP x = .val (Auto.parse x) := by
  simp only [Auto.parseP, Auto.parse, V2.parseP_eq, V1.parseBytes_no_panic, Outcome.val_bind]
  split <;> rfl

/-- Accessors of an accepted v2 header: `length`, `address_bytes`, `tlv_bytes`
(and `tlvs()`, which is `tlv_bytes` plus the iterator below). `len`, `is_empty`,
`address_family`, `as_bytes`, `Display`, `to_owned` have no partial operation. -/
theorem v2_accessors_no_panic {x : B} {h : V2.Header} (hp : V2.parse x = .ok h) :
    h.lengthP = .val h.length ∧ h.addressBytesEndP = .val h.addressBytesEnd ∧
    h.addressBytesP = .val h.addressBytes ∧ h.tlvBytesP = .val h.tlvBytes :=
  V2.accepted_accessors hp

/-- `addresses_str` of an accepted v1 header (the only v1 accessor with index
arithmetic and `&str` slicing); `protocol`, `Display`, `to_owned` are total. -/
theorem v1_accessors_no_panic {x : B} {h : V1.Header} :
    (V1.parseBytes x = .ok h → h.addressesStrP = .val h.addressesStr) ∧
    (Utf8.valid x = true → V1.parseStr x = .ok h → h.addressesStrP = .val h.addressesStr) :=
  ⟨C15.parse_accessors_no_panic, C15.parseStr_accessors_no_panic⟩

/-- `TypeLengthValues::next`: every iterator state over every byte slice. -/
theorem tlv_next_no_panic (it : V2.Iter) : it.nextP = .val it.next := V2.nextP_eq it

/-- Iterating a section of `n` bytes ends after at most `n / 3 + 1` items. -/
theorem tlv_count_bound (bs : B) : (V2.tlvCollect bs).length ≤ bs.length / 3 + 1 := C11.count_bound bs

/-- The cursor moves strictly forward on every item and stays inside the section;
once it reaches the end `next` returns `None`, and keeps doing so. -/
theorem tlv_progress (it it' : V2.Iter) (i : V2.Item) (h : it.next = some (i, it')) :
    it.offset < it'.offset ∧ it'.bytes = it.bytes ∧ it'.offset ≤ it.bytes.length :=
  V2.next_offset_ge it it' i h

theorem tlv_fused (it : V2.Iter) : it.next = none ↔ it.bytes.length ≤ it.offset := V2.next_none_iff it

/-- Non-vacuity: the boundary cases the property names. -/
example : V1.parseStrP [0x0D, 0xE2, 0x82, 0xAC] = .val (.error .invalidSuffix) := by decide
example : V2.parseP [0x0D, 0x0A] = .val (.error (.incomplete 2)) := by decide
example : (V2.Iter.ofBytes [4, 0xFF, 0xFF]).nextP =
    .val (some (.error (.invalidTLV 4 65535), { bytes := [4, 0xFF, 0xFF], offset := 3 })) := by decide

end C03
