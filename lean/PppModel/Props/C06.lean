import PppModel.Auto
import PppModel.Lemmas.AutoDetect

/-!
# C06 — version auto-detection agrees with the two dedicated parsers

`HeaderResult::parse` (`Auto.parse`) runs the binary parser first and falls back
to the text parser exactly when the binary verdict is a terminal error
(`auto_def`). This file shows that the dispatch is sound:

* the two formats are disjoint on the first byte (`v1_accept_starts_with_P`,
  `v2_not_terminal_starts`), so no buffer is accepted by both (`never_both`);
* the dispatcher accepts exactly what one of the two parsers accepts, with the
  same header and the right tag (`tag_v2`, `tag_v1`, `accept_iff`);
* it is incomplete exactly when v2 is incomplete, or v2 is terminal and v1 is
  incomplete (`incomplete_iff`); everything else is a complete error
  (`terminal_otherwise`);
* a buffer that is still a possible v2 header is never handed to the text
  parser's verdict (`possible_v2_never_v1`).
-/

namespace C06
open Auto

/-- The auto-detecting parser is the v2 verdict unless that verdict is a terminal
error, in which case it is the v1 (bytes) verdict. -/
theorem auto_def (x : B) :
    parse x = (match V2.parse x with
      | .ok h => .v2 (.ok h)
      | .error e => if e.isIncomplete then .v2 (.error e) else .v1 (V1.parseBytes x)) := by
  unfold parse
  cases h : V2.parse x with
  | ok hd => simp [isCompleteV2, isIncompleteV2, isErr]
  | error e => cases he : e.isIncomplete <;> simp [isCompleteV2, isIncompleteV2, isErr, he]

/-- The three branches of `auto_def`, one at a time. -/
theorem auto_of_ok {x : B} {h : V2.Header} (hv : V2.parse x = .ok h) : parse x = .v2 (.ok h) := by
  rw [auto_def, hv]

theorem auto_of_incomplete {x : B} {e : V2.ParseError} (hv : V2.parse x = .error e)
    (he : e.isIncomplete = true) : parse x = .v2 (.error e) := by
  rw [auto_def, hv]; simp only [he, if_true]

theorem auto_of_terminal {x : B} {e : V2.ParseError} (hv : V2.parse x = .error e)
    (he : e.isIncomplete = false) : parse x = .v1 (V1.parseBytes x) := by
  rw [auto_def, hv]; simp only [he, Bool.false_eq_true, if_false]

/-! ## The two formats differ on the first byte -/

/-- An input accepted by the text parser starts with the six bytes `PROXY␠`. -/
theorem v1_accept_starts_with_PROXY {x : B} {h : V1.Header} (hp : V1.parseBytes x = .ok h) :
    x.take 6 = V1.PROXY ++ [V1.SP] :=
  V1.AutoDetect.parseBytes_ok_take6 hp

/-- In particular its first byte is `'P'`. -/
theorem v1_accept_starts_with_P {x : B} {h : V1.Header} (hp : V1.parseBytes x = .ok h) :
    x.head? = some 0x50 := by
  have h6 := v1_accept_starts_with_PROXY hp
  cases x with
  | nil => cases h6
  | cons c t =>
    rw [List.take_succ_cons] at h6
    rw [(List.cons.inj h6).1]
    rfl

/-- An input accepted by the text parser is a well-formed line (cf. `V1.parseHeader_ok_iff`):
the window is a window, so the grammar theorem applies to the bytes entry point. -/
theorem v1_accept_is_line {x : B} {h : V1.Header} (hp : V1.parseBytes x = .ok h) :
    ∃ n, V1.windowLength x = some n ∧ h.header = x.take n ∧ (x.take n).length ≤ 107 ∧
      Spec.V1.Line V1.ip6Model (x.take n) h.addresses :=
  V1.AutoDetect.parseBytes_ok_line hp

/-- A non-empty buffer whose first byte is not CR is rejected terminally by the
binary parser. -/
theorem v2_terminal_of_head {x : B} {c : UInt8} (hh : x.head? = some c) (hc : c ≠ 0x0D) :
    V2.parse x = .error .badPrefix :=
  V2.parse_badPrefix_of_head hh hc

/-- A buffer that v2 accepts, or that is still a possible v2 header, is empty or
starts with the first signature byte CR. -/
theorem v2_not_terminal_starts {x : B}
    (h : (∃ hd, V2.parse x = .ok hd) ∨ (∃ e, V2.parse x = .error e ∧ e.isIncomplete = true)) :
    x = [] ∨ x.head? = some 0x0D := by
  apply V2.head_of_not_badPrefix
  intro hb
  rcases h with ⟨hd, h⟩ | ⟨e, h, he⟩
  · rw [hb] at h; cases h
  · rw [hb] at h; cases h; cases he

/-- An accepted v2 input is non-empty, so it does start with CR. -/
theorem v2_accept_starts_with_CR {x : B} {h : V2.Header} (hp : V2.parse x = .ok h) :
    x.head? = some 0x0D := by
  rcases v2_not_terminal_starts (.inl ⟨h, hp⟩) with rfl | h'
  · cases hp
  · exact h'

/-- If the text parser accepts, the binary parser rejects *terminally*. -/
theorem v1_accept_v2_terminal {x : B} {h : V1.Header} (hp : V1.parseBytes x = .ok h) :
    V2.parse x = .error .badPrefix :=
  v2_terminal_of_head (v1_accept_starts_with_P hp) (by decide)

/-- No buffer is accepted by both parsers. -/
theorem never_both (x : B) :
    ¬ ((∃ h1, V1.parseBytes x = .ok h1) ∧ (∃ h2, V2.parse x = .ok h2)) := by
  rintro ⟨⟨h1, hp1⟩, ⟨h2, hp2⟩⟩
  rw [v1_accept_v2_terminal hp1] at hp2
  cases hp2

/-! ## Acceptance -/

/-- The dispatcher reports a v2 header exactly when the binary parser does. -/
theorem tag_v2 (x : B) (h : V2.Header) : parse x = .v2 (.ok h) ↔ V2.parse x = .ok h := by
  cases hv : V2.parse x with
  | ok hd => rw [auto_of_ok hv]; simp
  | error e =>
    cases he : e.isIncomplete with
    | true => rw [auto_of_incomplete hv he]; simp
    | false => rw [auto_of_terminal hv he]; simp

/-- The dispatcher reports a v1 header exactly when the text parser does. -/
theorem tag_v1 (x : B) (h : V1.Header) : parse x = .v1 (.ok h) ↔ V1.parseBytes x = .ok h := by
  constructor
  · cases hv : V2.parse x with
    | ok hd => rw [auto_of_ok hv]; simp
    | error e =>
      cases he : e.isIncomplete with
      | true => rw [auto_of_incomplete hv he]; simp
      | false => rw [auto_of_terminal hv he]; simp
  · intro hp
    rw [auto_of_terminal (v1_accept_v2_terminal hp) rfl, hp]

/-- The dispatcher accepts exactly the buffers accepted by one of the two parsers. -/
theorem accept_iff (x : B) :
    ((∃ h, parse x = .v1 (.ok h)) ∨ (∃ h, parse x = .v2 (.ok h))) ↔
      ((∃ h, V1.parseBytes x = .ok h) ∨ (∃ h, V2.parse x = .ok h)) := by
  simp only [tag_v1, tag_v2]

/-- The same, with the result named (the form in the property list). -/
theorem accept_iff' (x : B) :
    (∃ r, parse x = r ∧ ((∃ h, r = .v1 (.ok h)) ∨ (∃ h, r = .v2 (.ok h)))) ↔
      ((∃ h, V1.parseBytes x = .ok h) ∨ (∃ h, V2.parse x = .ok h)) := by
  rw [← accept_iff]
  constructor
  · rintro ⟨r, rfl, h⟩; exact h
  · intro h; exact ⟨_, rfl, h⟩

/-- …and by exactly one of them. -/
theorem accept_exclusive (x : B) :
    ¬ ((∃ h, parse x = .v1 (.ok h)) ∧ (∃ h, parse x = .v2 (.ok h))) := by
  rintro ⟨⟨h1, e1⟩, ⟨h2, e2⟩⟩
  rw [e1] at e2
  cases e2

/-! ## Incomplete, complete, terminal -/

/-- The dispatcher asks for more bytes exactly when v2 does, or v2 fails
terminally and v1 asks for more bytes. -/
theorem incomplete_iff (x : B) :
    (parse x).isIncomplete = true ↔
      (isIncompleteV2 (V2.parse x) = true ∨
        (isIncompleteV2 (V2.parse x) = false ∧ isErr (V2.parse x) = true ∧
          isIncompleteV1 (V1.parseBytes x) = true)) := by
  cases hv : V2.parse x with
  | ok hd => rw [auto_of_ok hv]; simp [HeaderResult.isIncomplete, isIncompleteV2, isErr]
  | error e =>
    cases he : e.isIncomplete with
    | true => rw [auto_of_incomplete hv he]; simp [HeaderResult.isIncomplete, isIncompleteV2, he]
    | false =>
      rw [auto_of_terminal hv he]; simp [HeaderResult.isIncomplete, isIncompleteV2, isErr, he]

theorem complete_eq (x : B) : (parse x).isComplete = !(parse x).isIncomplete := rfl

/-- A `.v2 (.error e)` result is always an incomplete one: terminal v2 errors fall
through to the text parser. -/
theorem v2_error_incomplete (x : B) (e : V2.ParseError) (h : parse x = .v2 (.error e)) :
    V2.parse x = .error e ∧ e.isIncomplete = true := by
  cases hv : V2.parse x with
  | ok hd => rw [auto_of_ok hv] at h; cases h
  | error e' =>
    cases he : e'.isIncomplete with
    | false => rw [auto_of_terminal hv he] at h; cases h
    | true =>
      rw [auto_of_incomplete hv he] at h
      cases h
      exact ⟨rfl, he⟩

/-- In every other case (not accepted, not incomplete) the result is the text
parser's terminal error, and the binary parser failed terminally as well. -/
theorem terminal_otherwise (x : B) (hi : (parse x).isIncomplete = false)
    (hna : ¬ ((∃ h, V1.parseBytes x = .ok h) ∨ (∃ h, V2.parse x = .ok h))) :
    ∃ e1 e2, parse x = .v1 (.error e1) ∧ e1.isIncomplete = false ∧
      V1.parseBytes x = .error e1 ∧ V2.parse x = .error e2 ∧ e2.isIncomplete = false := by
  cases hv : V2.parse x with
  | ok hd => exact absurd (.inr ⟨hd, hv⟩) hna
  | error e2 =>
    cases he : e2.isIncomplete with
    | true =>
      rw [auto_of_incomplete hv he] at hi
      simp [HeaderResult.isIncomplete, isIncompleteV2, he] at hi
    | false =>
      rw [auto_of_terminal hv he] at hi ⊢
      cases h1 : V1.parseBytes x with
      | ok h => exact absurd (.inl ⟨h, h1⟩) hna
      | error e1 =>
        rw [h1] at hi
        exact ⟨e1, e2, rfl, hi, rfl, rfl, he⟩

/-- The weaker reading of the same statement: a complete error under one of the two tags. -/
theorem terminal_otherwise' (x : B) (hi : (parse x).isIncomplete = false)
    (hna : ¬ ((∃ h, V1.parseBytes x = .ok h) ∨ (∃ h, V2.parse x = .ok h))) :
    (∃ e, parse x = .v1 (.error e) ∧ e.isIncomplete = false) ∨
      (∃ e, parse x = .v2 (.error e) ∧ e.isIncomplete = false) := by
  obtain ⟨e1, -, h, h', -⟩ := terminal_otherwise x hi hna
  exact .inl ⟨e1, h, h'⟩

/-- Trichotomy: accepted, incomplete, or a complete error; the three are exclusive. -/
theorem trichotomy (x : B) :
    ((∃ h, V1.parseBytes x = .ok h) ∨ (∃ h, V2.parse x = .ok h)) ∨
    (parse x).isIncomplete = true ∨
    (∃ e, parse x = .v1 (.error e) ∧ e.isIncomplete = false) := by
  by_cases ha : (∃ h, V1.parseBytes x = .ok h) ∨ (∃ h, V2.parse x = .ok h)
  · exact .inl ha
  · cases hi : (parse x).isIncomplete with
    | true => exact .inr (.inl rfl)
    | false =>
      obtain ⟨e1, -, h, h', -⟩ := terminal_otherwise x hi ha
      exact .inr (.inr ⟨e1, h, h'⟩)

/-- An accepted buffer is never reported incomplete. -/
theorem accepted_complete (x : B)
    (ha : (∃ h, V1.parseBytes x = .ok h) ∨ (∃ h, V2.parse x = .ok h)) :
    (parse x).isIncomplete = false := by
  rcases ha with ⟨h, hp⟩ | ⟨h, hp⟩
  · rw [(tag_v1 x h).mpr hp]; rfl
  · rw [(tag_v2 x h).mpr hp]; rfl

/-- A buffer that is still a possible v2 header is never handed to the text
parser's verdict. -/
theorem possible_v2_never_v1 (x : B) (e : V2.ParseError) (h : V2.parse x = .error e)
    (hi : e.isIncomplete = true) : parse x = .v2 (.error e) := by
  rw [auto_def, h]
  simp [hi]

/-- Conversely, a v1-tagged result means the binary parser failed terminally. -/
theorem v1_tag_v2_terminal (x : B) (r : Except V1.BinaryParseError V1.Header)
    (h : parse x = .v1 r) :
    r = V1.parseBytes x ∧ ∃ e, V2.parse x = .error e ∧ e.isIncomplete = false := by
  cases hv : V2.parse x with
  | ok hd => rw [auto_of_ok hv] at h; cases h
  | error e =>
    cases he : e.isIncomplete with
    | true => rw [auto_of_incomplete hv he] at h; cases h
    | false =>
      rw [auto_of_terminal hv he] at h
      cases h
      exact ⟨rfl, e, rfl, he⟩

/-! ## Non-vacuity -/

/-- A proper prefix of the v2 signature: still a possible v2 header. -/
example : parse [0x0D, 0x0A, 0x0D] = .v2 (.error (.incomplete 3)) ∧
    (parse [0x0D, 0x0A, 0x0D]).isIncomplete = true := by decide

/-- The empty buffer is a possible v2 header too. -/
example : parse [] = .v2 (.error (.incomplete 0)) := by decide

/-- `PROXY UNKNOWN\r\n` is accepted with the v1 tag. -/
example : parse [0x50, 0x52, 0x4F, 0x58, 0x59, 0x20, 0x55, 0x4E, 0x4B, 0x4E, 0x4F, 0x57, 0x4E,
      0x0D, 0x0A] =
    .v1 (.ok { header := [0x50, 0x52, 0x4F, 0x58, 0x59, 0x20, 0x55, 0x4E, 0x4B, 0x4E, 0x4F,
      0x57, 0x4E, 0x0D, 0x0A], addresses := .unknown }) := by decide

/-- `PROXY UNK`: v2 is terminal, v1 asks for more. -/
example : parse [0x50, 0x52, 0x4F, 0x58, 0x59, 0x20, 0x55, 0x4E, 0x4B] =
      .v1 (.error (.parse .partialHdr)) ∧
    (parse [0x50, 0x52, 0x4F, 0x58, 0x59, 0x20, 0x55, 0x4E, 0x4B]).isIncomplete = true := by decide

/-- `GET /\r\n`: a complete error with the v1 tag. -/
example : parse [0x47, 0x45, 0x54, 0x20, 0x2F, 0x0D, 0x0A] = .v1 (.error (.parse .invalidPrefix)) ∧
    (parse [0x47, 0x45, 0x54, 0x20, 0x2F, 0x0D, 0x0A]).isComplete = true := by decide

/-- A v2 PROXY/TCP4 header (followed by two payload bytes) is accepted with the v2 tag. -/
example : parse [0x0D, 0x0A, 0x0D, 0x0A, 0x00, 0x0D, 0x0A, 0x51, 0x55, 0x49, 0x54, 0x0A,
      0x21, 0x11, 0x00, 0x0C, 127, 0, 0, 1, 192, 168, 1, 1, 0, 80, 1, 187, 0x50, 0x52] =
    .v2 (.ok {
      header := [0x0D, 0x0A, 0x0D, 0x0A, 0x00, 0x0D, 0x0A, 0x51, 0x55, 0x49, 0x54, 0x0A,
        0x21, 0x11, 0x00, 0x0C, 127, 0, 0, 1, 192, 168, 1, 1, 0, 80, 1, 187]
      version := .two
      command := .proxy
      protocol := .stream
      addresses := .ipv4 { srcAddr := ⟨127, 0, 0, 1⟩, srcPort := 80,
                           dstAddr := ⟨192, 168, 1, 1⟩, dstPort := 443 } }) := by decide

/-- A v2 header cut after 19 bytes: incomplete with the v2 tag, never v1. -/
example : parse [0x0D, 0x0A, 0x0D, 0x0A, 0x00, 0x0D, 0x0A, 0x51, 0x55, 0x49, 0x54, 0x0A,
      0x21, 0x11, 0x00, 0x0C, 1, 2, 3] = .v2 (.error (.partialHdr 3 12)) := by decide

/-- The result of auto-detection — its tag and its class (accepted / incomplete / terminal) — is the
function `Auto.verdict` of the classes of the two dedicated parsers' results on the same input:
the whole property in one equation, and the form in which the correspondence run checks the
implementation's composition (op `autoc`). -/
theorem parse_verdict (x : B) :
    ((parse x).isV2, (parse x).cls) = verdict (clsV2 (V2.parse x)) (clsV1 (V1.parseBytes x)) := by
  unfold parse verdict
  cases hv : V2.parse x with
  | ok h => simp [isCompleteV2, isIncompleteV2, isErr, clsV2, HeaderResult.isV2, HeaderResult.cls]
  | error e =>
    cases hi : e.isIncomplete <;>
      simp [isCompleteV2, isIncompleteV2, isErr, clsV2, hi, HeaderResult.isV2, HeaderResult.cls]

/-- `verdict` spelled out: the nine cases of the statement. -/
theorem verdict_table :
    verdict .ok .ok = (true, .ok) ∧ verdict .ok .inc = (true, .ok) ∧ verdict .ok .term = (true, .ok) ∧
    verdict .inc .ok = (true, .inc) ∧ verdict .inc .inc = (true, .inc) ∧ verdict .inc .term = (true, .inc) ∧
    verdict .term .ok = (false, .ok) ∧ verdict .term .inc = (false, .inc) ∧ verdict .term .term = (false, .term) := by
  decide

/-! ## Audit addition: "still a possible v2 header" is the parser's flag, not extensibility -/

/-- The signature followed by a zero byte (version nibble 0). -/
def stuck : B := [0x0D, 0x0A, 0x0D, 0x0A, 0x00, 0x0D, 0x0A, 0x51, 0x55, 0x49, 0x54, 0x0A, 0x00]

/-- **A documented example, so that "possible v2 header" is not read literally.** In
`possible_v2_never_v1`, `incomplete_iff`, … "still a possible v2 header" means "the binary parser
reports incomplete", which is what the crate's dispatcher tests. It does not mean that some
continuation is accepted: the 13 bytes `signature ++ [0x00]` are `Incomplete(13)` (the fixed part
is examined only once all 16 bytes are there) and auto-detection tags them V2, yet no
continuation is ever accepted — any continuation to 16 bytes or more is the terminal
`Version(0)`. -/
theorem v2_incomplete_not_always_extensible :
    ∃ (x : B) (e : V2.ParseError), V2.parse x = .error e ∧ e.isIncomplete = true ∧
      parse x = .v2 (.error e) ∧
      (∀ t h, V2.parse (x ++ t) ≠ .ok h) ∧
      (∀ t, 3 ≤ t.length → V2.parse (x ++ t) = .error (.version 0)) := by
  refine ⟨stuck, .incomplete 13, by decide, rfl, by decide, ?_, ?_⟩
  · intro t h hp
    obtain ⟨-, -, c, -, -, h1, -⟩ := (C02.accept_iff_table _ _).mp hp
    rw [V2.byteAt_append_of_lt t (by decide)] at h1
    cases c <;> exact absurd h1 (by decide)
  · intro t ht
    have hg : V2.gate (stuck ++ t) = .ok () := by
      rw [V2.gate_ok_iff]
      refine ⟨?_, by simp only [List.length_append, stuck, List.length_cons, List.length_nil]; omega⟩
      rw [List.take_append_of_le_length (by decide)]; decide
    have hb : byteAt (stuck ++ t) 12 = 0 := V2.byteAt_append_of_lt t (by decide)
    have := V2.blame_version (stuck ++ t) hg (by rw [hb]; decide)
    rw [hb] at this
    exact this

end C06
