import PppModel.Auto

/-!
# C06 — version auto-detection agrees with the two dedicated parsers
-/

namespace C06
open Auto

/-- The auto-detecting parser is the v2 verdict unless that verdict is a terminal
error, in which case it is the v1 (bytes) verdict. -/
theorem auto_def (x : B) :
    parse x = (match V2.parse x with
      | .ok h => .v2 (.ok h)
      | .error e => if e.isIncomplete then .v2 (.error e) else .v1 (V1.parseBytes x)) := by
  unfold parse
  cases h : V2.parse x with
  | ok hd => simp [isCompleteV2, isIncompleteV2, isErr]
  | error e => cases he : e.isIncomplete <;> simp [isCompleteV2, isIncompleteV2, isErr, he]

end C06
