import PppModel.Props.C02
import PppModel.Lemmas.V2Stream

/-!
# C17 — v2 incomplete errors state exactly how many bytes are present and needed
-/

namespace C17
open V2

/-- Before the 16-byte fixed part is complete the error reports the number of
bytes supplied (and the input is still a possible v2 header). -/
theorem incomplete_exact {x : B} {n : Nat} (h : V2.parse x = .error (.incomplete n)) :
    n = x.length ∧ x.length < 16 ∧ x.take 12 <+: Spec.V2.signature := by
  unfold V2.parse at h
  cases hg : gate x with
  | error e =>
    rw [hg] at h
    rcases gate_error_cases x e hg with ⟨rfl, h2, h3, -⟩ | rfl
    · cases h; exact ⟨rfl, h2, h3⟩
    · cases h
  | ok u =>
    cases u
    rw [hg] at h
    cases hc : control (byteAt x 12) (byteAt x 13) with
    | error e =>
      rw [hc] at h
      simp only at h
      cases h
      rcases control_error _ _ _ hc with ⟨v, h⟩ | ⟨v, h⟩ | ⟨v, h⟩ | ⟨v, h⟩ <;> cases h
    | ok r =>
      obtain ⟨v, c, f, t⟩ := r
      rw [hc] at h
      simp only [body] at h
      split at h
      · cases h
      · split at h <;> cases h

/-- Afterwards it reports the payload bytes present and the declared payload
length. -/
theorem partial_exact {x : B} {a b : Nat} (h : V2.parse x = .error (.partialHdr a b)) :
    16 ≤ x.length ∧ a = x.length - 16 ∧ b = be16 (byteAt x 14) (byteAt x 15) ∧ a < b := by
  obtain ⟨hg, v, c, f, t, hc, h1, h2, rfl, rfl⟩ := parse_partial h
  obtain ⟨-, g2⟩ := (gate_ok_iff x).mp hg
  exact ⟨g2, rfl, rfl, by omega⟩

/-- Supplying fewer than the missing number of bytes leaves the result
incomplete, with correspondingly updated counts. -/
theorem partial_progress {x : B} {a b : Nat} (h : V2.parse x = .error (.partialHdr a b))
    (ys : B) (hy : ys.length < b - a) :
    V2.parse (x ++ ys) = .error (.partialHdr (a + ys.length) b) := by
  obtain ⟨hg, v, c, f, t, hc, h1, h2, rfl, rfl⟩ := parse_partial h
  obtain ⟨-, g2⟩ := (gate_ok_iff x).mp hg
  have hb : ∀ i, i < 16 → byteAt (x ++ ys) i = byteAt x i :=
    fun i hi => byteAt_append_of_lt ys (by omega)
  rw [parse_eq_body (gate_ok_append ys hg) (by rw [hb 12 (by omega), hb 13 (by omega)]; exact hc)]
  simp only [body, hb 14 (by omega), hb 15 (by omega), minLen]
  rw [if_neg (by omega), if_pos (by simp; omega)]
  simp only [List.length_append]
  congr 2
  omega

/-- Supplying exactly the missing number of bytes, whatever their values, turns
the result into a success whose header is the whole input. -/
theorem partial_completion {x : B} {a b : Nat} (h : V2.parse x = .error (.partialHdr a b))
    (ys : B) (hy : ys.length = b - a) :
    ∃ hd, V2.parse (x ++ ys) = .ok hd ∧ hd.header = x ++ ys := by
  obtain ⟨hg, v, c, f, t, hc, h1, h2, rfl, rfl⟩ := parse_partial h
  obtain ⟨-, g2⟩ := (gate_ok_iff x).mp hg
  have hb : ∀ i, i < 16 → byteAt (x ++ ys) i = byteAt x i :=
    fun i hi => byteAt_append_of_lt ys (by omega)
  rw [parse_eq_body (gate_ok_append ys hg) (by rw [hb 12 (by omega), hb 13 (by omega)]; exact hc)]
  simp only [body, hb 14 (by omega), hb 15 (by omega), minLen]
  rw [if_neg (by omega), if_neg (by simp; omega)]
  refine ⟨_, rfl, ?_⟩
  simp only
  apply List.take_of_length_le
  simp; omega

/-- More than the missing bytes: still a success, and the surplus is not part of
the header (cf. C04). -/
theorem partial_completion_surplus {x : B} {a b : Nat} (h : V2.parse x = .error (.partialHdr a b))
    (ys : B) (hy : b - a ≤ ys.length) :
    ∃ hd, V2.parse (x ++ ys) = .ok hd ∧ hd.header = x ++ ys.take (b - a) := by
  obtain ⟨hg, v, c, f, t, hc, h1, h2, rfl, rfl⟩ := parse_partial h
  obtain ⟨-, g2⟩ := (gate_ok_iff x).mp hg
  have hb : ∀ i, i < 16 → byteAt (x ++ ys) i = byteAt x i :=
    fun i hi => byteAt_append_of_lt ys (by omega)
  rw [parse_eq_body (gate_ok_append ys hg) (by rw [hb 12 (by omega), hb 13 (by omega)]; exact hc)]
  simp only [body, hb 14 (by omega), hb 15 (by omega), minLen]
  rw [if_neg (by omega), if_neg (by simp; omega)]
  refine ⟨_, rfl, ?_⟩
  simp only
  rw [List.take_append]
  congr 1
  · apply List.take_of_length_le; omega
  · congr 1; omega

/-- Non-vacuity: 16 + 3 of 16 + 12 bytes present. -/
example : V2.parse [0x0D, 0x0A, 0x0D, 0x0A, 0x00, 0x0D, 0x0A, 0x51, 0x55, 0x49, 0x54, 0x0A,
    0x21, 0x11, 0x00, 0x0C, 1, 2, 3] = .error (.partialHdr 3 12) := by decide

example : V2.parse [0x0D, 0x0A, 0x0D] = .error (.incomplete 3) := by decide

/-! ## Audit additions: the forward form and exact characterisations -/

/-- **Forward form** (the quantifier of the property text: every accepted header, every number of
bytes present). The first `n` bytes of an accepted header, `n` smaller than its length, give
`Incomplete(n)` before the fixed part is complete and `Partial(n - 16, declared length)`
afterwards. Re-export of `V2.prefix_incomplete_exact`. -/
theorem truncated_exact {x : B} {h : V2.Header} (hp : V2.parse x = .ok h) (n : Nat)
    (hn : n < h.header.length) :
    V2.parse (x.take n) = .error (if n < 16 then .incomplete n
      else .partialHdr (n - 16) (be16 (byteAt x 14) (byteAt x 15))) :=
  V2.prefix_incomplete_exact hp n hn

/-- **`Partial(a, b)` exactly.** The parser reports `Partial(a, b)` iff the signature and the two
control bytes are those of a well-formed header, the declared length `b` is at least the family's
address-block size, `a` is the number of payload bytes present and it is less than `b`. -/
theorem partial_iff (x : B) (a b : Nat) :
    V2.parse x = .error (.partialHdr a b) ↔
      x.take 12 = Spec.V2.signature ∧ 16 ≤ x.length ∧
      (∃ c f t, byteAt x 12 = Spec.V2.versionCommand c ∧ byteAt x 13 = Spec.V2.familyTransport f t ∧
        Spec.V2.familySize f ≤ b) ∧
      b = be16 (byteAt x 14) (byteAt x 15) ∧ a = x.length - 16 ∧ x.length < 16 + b := by
  constructor
  · intro h
    obtain ⟨hg, v, c, f, t, hc, h1, h2, rfl, rfl⟩ := parse_partial h
    obtain ⟨g1, g2⟩ := (gate_ok_iff x).mp hg
    cases v
    obtain ⟨c1, c2⟩ := (control_ok_iff _ _ _ _ _ _).mp hc
    exact ⟨g1, g2, ⟨c, f, t, c1, c2, size_eq_spec f ▸ h1⟩, rfl, rfl, h2⟩
  · rintro ⟨g1, g2, ⟨c, f, t, c1, c2, h1⟩, rfl, rfl, h2⟩
    have hg : gate x = .ok () := (gate_ok_iff x).mpr ⟨g1, g2⟩
    have hc : control (byteAt x 12) (byteAt x 13) = .ok (.two, c, f, t) :=
      (control_ok_iff _ _ _ _ _ _).mpr ⟨c1, c2⟩
    rw [parse_eq_body hg hc]
    simp only [body, minLen, size_eq_spec]
    rw [if_neg (by omega), if_pos h2]

/-- **`Incomplete(n)` exactly** (the converse of `incomplete_exact` is `V2.gate_incomplete`). -/
theorem incomplete_iff (x : B) (n : Nat) :
    V2.parse x = .error (.incomplete n) ↔
      n = x.length ∧ x.length < 16 ∧ x.take 12 <+: Spec.V2.signature := by
  constructor
  · exact incomplete_exact
  · rintro ⟨rfl, h1, h2⟩
    exact parse_of_gate_error (gate_incomplete h1 h2)

/-- Non-vacuity: the header of the example above, accepted, and two of its truncations through
`truncated_exact`; the right-hand sides of the two iffs on concrete inputs. -/
private def v4 : B := [0x0D, 0x0A, 0x0D, 0x0A, 0x00, 0x0D, 0x0A, 0x51, 0x55, 0x49, 0x54, 0x0A,
    0x21, 0x11, 0x00, 0x0C, 1, 2, 3, 4, 5, 6, 7, 8, 9, 10, 11, 12]

private def v4H : V2.Header :=
  { header := v4, version := .two, command := .proxy, protocol := .stream,
    addresses := .ipv4 { srcAddr := ⟨1, 2, 3, 4⟩, srcPort := 2314, dstAddr := ⟨5, 6, 7, 8⟩, dstPort := 2828 } }

example : V2.parse v4 = .ok v4H := by decide
example : V2.parse (v4.take 19) = .error (.partialHdr 3 12) :=
  truncated_exact (x := v4) (h := v4H) (by decide) 19 (by decide)
example : V2.parse (v4.take 7) = .error (.incomplete 7) :=
  truncated_exact (x := v4) (h := v4H) (by decide) 7 (by decide)
example : V2.parse (v4.take 19) = .error (.partialHdr 3 12) :=
  (partial_iff _ 3 12).mpr ⟨by decide, by decide, ⟨.proxy, .ipv4, .stream, by decide, by decide, by decide⟩,
    by decide, by decide, by decide⟩
example : V2.parse (v4.take 7) = .error (.incomplete 7) :=
  (incomplete_iff _ 7).mpr ⟨by decide, by decide, by decide⟩

end C17
