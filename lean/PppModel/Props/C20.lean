import PppModel.Lemmas.Builder

/-!
# C20 — every encodable value appends exactly its wire encoding and reports its size
-/

namespace C20
open V2 Spec.Builder

/-- Writing a value succeeds only by appending exactly its specified encoding
after whatever the writer holds, and returns the number of bytes appended. -/
theorem write_appends_encoding (p : Payload) (w : Writer) (n : Nat) (w' : Writer)
    (h : p.writeTo w = .ok (n, w')) : ∃ e, enc p = some e ∧ w' = w ++ e ∧ n = e.length :=
  writeTo_ok p w n w' h

/-- The *exact* success condition: the value is not refused up front and the size
guard does not trip at the start of any non-empty chunk handed to the writer. -/
theorem success_condition (p : Payload) (w : Writer) :
    (∃ r, p.writeTo w = .ok r) ↔
      ∃ cs, p.chunks = some cs ∧ guardOk w cs ∧ (∀ t, p = .type t → w.length ≤ writerLimit) := by
  constructor
  · rintro ⟨⟨n, w'⟩, h⟩
    obtain ⟨cs, h1, h2, h3, -, -⟩ := (writeTo_ok_iff p w n w').mp h
    exact ⟨cs, h1, h2, h3⟩
  · rintro ⟨cs, h1, h2, h3⟩
    exact ⟨_, (writeTo_ok_iff p w _ _).mpr ⟨cs, h1, h2, h3, rfl, rfl⟩⟩

/-- In particular: a writer below its size limit — the result is no longer than
a full-size header — accepts every value that is not refused. -/
theorem success_below_limit (p : Payload) (w : Writer) (e : B) (he : enc p = some e)
    (hfit : w.length + e.length ≤ 65535 + 16) : p.writeTo w = .ok (e.length, w ++ e) :=
  writeTo_succeeds p w e he hfit (fun _ _ => by simp only [writerLimit, minLen]; omega)

/-- Values too large for their 16-bit length are exactly the refused ones, and
they are refused without writing anything. -/
theorem oversize_refused (p : Payload) (w : Writer) :
    (enc p = none ↔ (match p with
      | .slice bs => 65535 < bs.length
      | .tlv _ v => 65535 < v.length
      | .pair _ v => 65535 < v.length
      | _ => False)) ∧
    (enc p = none → p.writeTo w = .error w ∧ p.toBytes = none) := by
  constructor
  · cases p <;> simp [enc] <;> omega
  · intro h
    exact ⟨writeTo_refused p w h, by simp [Payload.toBytes, writeTo_refused p [] h]⟩

/-- A failed write never disturbs what the writer already held. -/
theorem failure_keeps_prefix (p : Payload) (w w' : Writer) (h : p.writeTo w = .error w') : w <+: w' := by
  by_cases hp : ∃ t, p = .type t
  · obtain ⟨t, rfl⟩ := hp
    simp only [Payload.writeTo, Writer.write] at h
    split at h
    · cases h; exact List.prefix_refl _
    · cases h
  · have hp' : ∀ t, p ≠ .type t := fun t h => hp ⟨t, h⟩
    rw [writeTo_nontype p w hp'] at h
    cases hcs : p.chunks with
    | none => rw [hcs] at h; cases h; exact List.prefix_refl _
    | some cs =>
      rw [hcs] at h
      simp only at h
      cases hw : Writer.writeChunksE w cs with
      | error e => rw [hw] at h; cases h; exact writeChunksE_error_prefix w cs _ hw
      | ok w1 => rw [hw] at h; cases h

/-- Converting a value to bytes directly gives the same encoding. -/
theorem to_bytes (p : Payload) : p.toBytes = enc p := by
  cases he : enc p with
  | none => simp [Payload.toBytes, writeTo_refused p [] he]
  | some e =>
    have hc := chunks_spec p
    rw [he] at hc
    cases hcs : p.chunks with
    | none => rw [hcs] at hc; cases hc
    | some cs =>
      rw [hcs] at hc
      simp only [Option.map_some, Option.some.injEq] at hc
      subst hc
      have hg : guardOk [] cs := by
        cases p with
        | int w v => simp only [Payload.chunks, Option.some.injEq] at hcs; subst hcs; simp [guardOk, writerLimit]
        | slice bs =>
          simp only [Payload.chunks] at hcs; split at hcs <;> simp at hcs; subst hcs; simp [guardOk, writerLimit]
        | addresses a =>
          simp only [Payload.chunks, Option.some.injEq] at hcs; subst hcs
          cases a <;> simp [Addresses.chunks, guardOk, writerLimit, Ip4.octets, portBytes, minLen]
          all_goals (try simp [*, FixB])
          all_goals
            rename_i a
            first
              | (have := a.srcAddr.property; have := a.dstAddr.property; omega)
              | (have := a.source.property; omega)
        | tlv k v =>
          simp only [Payload.chunks] at hcs; split at hcs <;> simp at hcs; subst hcs
          simp [guardOk, writerLimit, minLen]
        | pair k v =>
          simp only [Payload.chunks] at hcs; split at hcs <;> simp at hcs; subst hcs
          simp [guardOk, writerLimit, minLen]
        | tlvSection bs => simp only [Payload.chunks, Option.some.injEq] at hcs; subst hcs; simp [guardOk, writerLimit]
        | type t => simp only [Payload.chunks, Option.some.injEq] at hcs; subst hcs; simp [guardOk, writerLimit]
      have := (writeTo_ok_iff p [] cs.flatten.length ([] ++ cs.flatten)).mpr
        ⟨cs, hcs, hg, fun _ _ => by simp, rfl, rfl⟩
      simp [Payload.toBytes, this]

/-- Integers are encoded big-endian at their natural width. -/
theorem int_big_endian (w v : Nat) :
    enc (.int w v) = some (intBE w v) ∧ (intBE w v).length = w ∧
    (intBE w v).foldl (fun acc b => acc * 256 + b.toNat) 0 = v % 256 ^ w := by
  refine ⟨rfl, ?_, ?_⟩
  · induction w with
    | zero => rfl
    | succ w ih => simp [intBE, ih]
  · suffices h : ∀ acc, (intBE w v).foldl (fun acc b => acc * 256 + b.toNat) acc =
        acc * 256 ^ w + v % 256 ^ w by simpa using h 0
    induction w with
    | zero => intro acc; simp [intBE, Nat.mod_one]
    | succ w ih =>
      intro acc
      simp only [intBE, List.foldl_cons, ih]
      have h1 : (UInt8.ofNat (v / 256 ^ w % 256)).toNat = v / 256 ^ w % 256 := by
        simp
      rw [h1, Nat.pow_succ]
      have hm : v % (256 ^ w * 256) = v % 256 ^ w + 256 ^ w * (v / 256 ^ w % 256) := Nat.mod_mul
      rw [hm]
      generalize 256 ^ w = P
      generalize v / P % 256 = d
      generalize v % P = r
      rw [Nat.add_mul, Nat.mul_assoc acc 256 P, Nat.mul_comm 256 P, Nat.mul_comm d P]
      omega

/-- A TLV and the equivalent (type, bytes) pair encode identically, as type,
big-endian length, value. -/
theorem tlv_pair_same (k : UInt8) (v : B) (w : Writer) :
    (Payload.tlv k v).writeTo w = (Payload.pair k v).writeTo w ∧
    enc (.tlv k v) = enc (.pair k v) ∧
    (v.length ≤ 65535 → enc (.tlv k v) =
      some (k :: UInt8.ofNat (v.length / 256) :: UInt8.ofNat (v.length % 256) :: v)) := by
  refine ⟨rfl, rfl, ?_⟩
  intro h
  simp [enc, h, Spec.Tlv.enc]

/-- Non-vacuity: a 3-byte TLV into a pre-filled writer; a signed 16-bit -2. -/
example : (Payload.tlv 4 [1, 2, 3]).writeTo [9, 9] = .ok (6, [9, 9, 4, 0, 3, 1, 2, 3]) := by decide
example : (Payload.int 2 65534).toBytes = some [0xFF, 0xFE] := by decide

end C20
