import PppModel.Lemmas.Builder

/-!
# C20 — every encodable value appends exactly its wire encoding and reports its size
-/

namespace C20
open V2 Spec.Builder

/-- Writing a value succeeds only by appending exactly its specified encoding
after whatever the writer holds, and returns the number of bytes appended. -/
theorem write_appends_encoding (p : Payload) (w : Writer) (n : Nat) (w' : Writer)
    (h : p.writeTo w = .ok (n, w')) : ∃ e, enc p = some e ∧ w' = w ++ e ∧ n = e.length :=
  writeTo_ok p w n w' h

/-- The *exact* success condition: the value is not refused up front and the size
guard does not trip at the start of any non-empty chunk handed to the writer. -/
theorem success_condition (p : Payload) (w : Writer) :
    (∃ r, p.writeTo w = .ok r) ↔
      ∃ cs, p.chunks = some cs ∧ guardOk w cs ∧ (∀ t, p = .type t → w.length ≤ writerLimit) := by
  constructor
  · rintro ⟨⟨n, w'⟩, h⟩
    obtain ⟨cs, h1, h2, h3, -, -⟩ := (writeTo_ok_iff p w n w').mp h
    exact ⟨cs, h1, h2, h3⟩
  · rintro ⟨cs, h1, h2, h3⟩
    exact ⟨_, (writeTo_ok_iff p w _ _).mpr ⟨cs, h1, h2, h3, rfl, rfl⟩⟩

/-- In particular: a writer below its size limit — the result is no longer than
a full-size header — accepts every value that is not refused. -/
theorem success_below_limit (p : Payload) (w : Writer) (e : B) (he : enc p = some e)
    (hfit : w.length + e.length ≤ 65535 + 16) : p.writeTo w = .ok (e.length, w ++ e) :=
  writeTo_succeeds p w e he hfit (fun _ _ => by simp only [writerLimit, minLen]; omega)

/-- Values too large for their 16-bit length are exactly the refused ones, and
they are refused without writing anything. -/
theorem oversize_refused (p : Payload) (w : Writer) :
    (enc p = none ↔ (match p with
      | .slice bs => 65535 < bs.length
      | .tlv _ v => 65535 < v.length
      | .pair _ v => 65535 < v.length
      | _ => False)) ∧
    (enc p = none → p.writeTo w = .error w ∧ p.toBytes = none) := by
  constructor
  · cases p <;> simp [enc] <;> omega
  · intro h
    exact ⟨writeTo_refused p w h, by simp [Payload.toBytes, writeTo_refused p [] h]⟩

/-- A failed write never disturbs what the writer already held. -/
theorem failure_keeps_prefix (p : Payload) (w w' : Writer) (h : p.writeTo w = .error w') : w <+: w' := by
  by_cases hp : ∃ t, p = .type t
  · obtain ⟨t, rfl⟩ := hp
    simp only [Payload.writeTo, Writer.write] at h
    split at h
    · cases h; exact List.prefix_refl _
    · cases h
  · have hp' : ∀ t, p ≠ .type t := fun t h => hp ⟨t, h⟩
    rw [writeTo_nontype p w hp'] at h
    cases hcs : p.chunks with
    | none => rw [hcs] at h; cases h; exact List.prefix_refl _
    | some cs =>
      rw [hcs] at h
      simp only at h
      cases hw : Writer.writeChunksE w cs with
      | error e => rw [hw] at h; cases h; exact writeChunksE_error_prefix w cs _ hw
      | ok w1 => rw [hw] at h; cases h

/-- Converting a value to bytes directly gives the same encoding. -/
theorem to_bytes (p : Payload) : p.toBytes = enc p := by
  cases he : enc p with
  | none => simp [Payload.toBytes, writeTo_refused p [] he]
  | some e =>
    have hc := chunks_spec p
    rw [he] at hc
    cases hcs : p.chunks with
    | none => rw [hcs] at hc; cases hc
    | some cs =>
      rw [hcs] at hc
      simp only [Option.map_some, Option.some.injEq] at hc
      subst hc
      have hg : guardOk [] cs := by
        cases p with
        | int w v => simp only [Payload.chunks, Option.some.injEq] at hcs; subst hcs; simp [guardOk, writerLimit]
        | slice bs =>
          simp only [Payload.chunks] at hcs; split at hcs <;> simp at hcs; subst hcs; simp [guardOk, writerLimit]
        | addresses a =>
          simp only [Payload.chunks, Option.some.injEq] at hcs; subst hcs
          cases a <;> simp [Addresses.chunks, guardOk, writerLimit, Ip4.octets, portBytes, minLen]
          all_goals (try simp [*, FixB])
          all_goals
            rename_i a
            first
              | (have := a.srcAddr.property; have := a.dstAddr.property; omega)
              | (have := a.source.property; omega)
        | tlv k v =>
          simp only [Payload.chunks] at hcs; split at hcs <;> simp at hcs; subst hcs
          simp [guardOk, writerLimit, minLen]
        | pair k v =>
          simp only [Payload.chunks] at hcs; split at hcs <;> simp at hcs; subst hcs
          simp [guardOk, writerLimit, minLen]
        | tlvSection bs => simp only [Payload.chunks, Option.some.injEq] at hcs; subst hcs; simp [guardOk, writerLimit]
        | type t => simp only [Payload.chunks, Option.some.injEq] at hcs; subst hcs; simp [guardOk, writerLimit]
      have := (writeTo_ok_iff p [] cs.flatten.length ([] ++ cs.flatten)).mpr
        ⟨cs, hcs, hg, fun _ _ => by simp, rfl, rfl⟩
      simp [Payload.toBytes, this]

/-- Integers are encoded big-endian at their natural width. -/
theorem int_big_endian (w v : Nat) :
    enc (.int w v) = some (intBE w v) ∧ (intBE w v).length = w ∧
    (intBE w v).foldl (fun acc b => acc * 256 + b.toNat) 0 = v % 256 ^ w := by
  refine ⟨rfl, ?_, ?_⟩
  · induction w with
    | zero => rfl
    | succ w ih => simp [intBE, ih]
  · suffices h : ∀ acc, (intBE w v).foldl (fun acc b => acc * 256 + b.toNat) acc =
        acc * 256 ^ w + v % 256 ^ w by simpa using h 0
    induction w with
    | zero => intro acc; simp [intBE, Nat.mod_one]
    | succ w ih =>
      intro acc
      simp only [intBE, List.foldl_cons, ih]
      have h1 : (UInt8.ofNat (v / 256 ^ w % 256)).toNat = v / 256 ^ w % 256 := by
        simp
      rw [h1, Nat.pow_succ]
      have hm : v % (256 ^ w * 256) = v % 256 ^ w + 256 ^ w * (v / 256 ^ w % 256) := Nat.mod_mul
      rw [hm]
      generalize 256 ^ w = P
      generalize v / P % 256 = d
      generalize v % P = r
      rw [Nat.add_mul, Nat.mul_assoc acc 256 P, Nat.mul_comm 256 P, Nat.mul_comm d P]
      omega

/-- A TLV and the equivalent (type, bytes) pair encode identically, as type,
big-endian length, value. -/
theorem tlv_pair_same (k : UInt8) (v : B) (w : Writer) :
    (Payload.tlv k v).writeTo w = (Payload.pair k v).writeTo w ∧
    enc (.tlv k v) = enc (.pair k v) ∧
    (v.length ≤ 65535 → enc (.tlv k v) =
      some (k :: UInt8.ofNat (v.length / 256) :: UInt8.ofNat (v.length % 256) :: v)) := by
  refine ⟨rfl, rfl, ?_⟩
  intro h
  simp [enc, h, Spec.Tlv.enc]

/-- Non-vacuity: a 3-byte TLV into a pre-filled writer; a signed 16-bit -2. -/
example : (Payload.tlv 4 [1, 2, 3]).writeTo [9, 9] = .ok (6, [9, 9, 4, 0, 3, 1, 2, 3]) := by decide
example : (Payload.int 2 65534).toBytes = some [0xFF, 0xFE] := by decide

/-! ### Signed integers and the type → width table (audit 3, X2) -/

/-- Decoding a byte string as an unsigned big-endian number. -/
def beVal (bs : B) : Nat := bs.foldl (fun a b => a * 256 + b.toNat) 0

theorem twos_lt (w : Nat) (i : Int) : twos w i < 256 ^ w := by
  have hpos : (0 : Int) < ((256 ^ w : Nat) : Int) := by exact_mod_cast Nat.pow_pos (by decide)
  have h1 := Int.emod_nonneg i (Int.ne_of_gt hpos)
  have h2 := Int.emod_lt_of_pos i hpos
  unfold twos
  omega

/-- The two's-complement bit pattern, in closed form, of any `i` with `-256^w ≤ i < 256^w`. -/
theorem twos_cast (w : Nat) (i : Int) (h : -((256 ^ w : Nat) : Int) ≤ i ∧ i < ((256 ^ w : Nat) : Int)) :
    ((twos w i : Nat) : Int) = i + (if i < 0 then ((256 ^ w : Nat) : Int) else 0) := by
  have hpos : (0 : Int) < ((256 ^ w : Nat) : Int) := by exact_mod_cast Nat.pow_pos (by decide)
  unfold twos
  generalize ((256 ^ w : Nat) : Int) = M at h hpos ⊢
  have h1 := Int.emod_nonneg i (Int.ne_of_gt hpos)
  rw [Int.toNat_of_nonneg h1]
  by_cases hi : i < 0
  · simp only [hi, if_true]
    rw [← Int.add_emod_right, Int.emod_eq_of_lt (by omega) (by omega)]
  · simp only [hi, if_false, Int.add_zero]
    exact Int.emod_eq_of_lt (by omega) h.2

/-- **C20 (two's complement, any width).** For a `w`-byte integer `i` — signed
(`-256^w/2 ≤ i < 256^w/2`) or unsigned (`0 ≤ i < 256^w`); both are inside the
stated range — the encoding of its bit pattern has `w` bytes and, read back as an
unsigned big-endian number, minus `256^w` when `i` is negative, is `i`. -/
theorem int_twos (w : Nat) (i : Int) (h : -((256 ^ w : Nat) : Int) ≤ i ∧ i < ((256 ^ w : Nat) : Int)) :
    enc (.int w (twos w i)) = some (intBE w (twos w i)) ∧
    (intBE w (twos w i)).length = w ∧
    ((beVal (intBE w (twos w i)) : Nat) : Int) - (if i < 0 then ((256 ^ w : Nat) : Int) else 0) = i := by
  obtain ⟨h1, h2, h3⟩ := int_big_endian w (twos w i)
  refine ⟨h1, h2, ?_⟩
  unfold beVal
  rw [h3, Nat.mod_eq_of_lt (twos_lt w i), twos_cast w i h]
  omega

/-- The form suggested by the audit: signed range at width `w`. -/
theorem int_signed_width (w : Nat) (i : Int)
    (h : -(((256 ^ w / 2 : Nat)) : Int) ≤ i ∧ i < (((256 ^ w / 2 : Nat)) : Int)) :
    let bs := intBE w (twos w i)
    bs.length = w ∧
    ((bs.foldl (fun a b => a * 256 + b.toNat) 0 : Nat) : Int) -
      (if i < 0 then ((256 ^ w : Nat) : Int) else 0) = i := by
  have := (int_twos w i (by omega)).2
  exact this

theorem inRange_bounds (t : IntTy) (i : Int) (h : t.inRange i = true) :
    -((256 ^ t.width : Nat) : Int) ≤ i ∧ i < ((256 ^ t.width : Nat) : Int) := by
  unfold IntTy.inRange at h
  split at h
  · have := of_decide_eq_true h; omega
  · have := of_decide_eq_true h; omega

/-- An unsigned type holds no negative value; a signed one holds `T::MIN = -256^w/2`
up to `T::MAX = 256^w/2 - 1`. -/
theorem inRange_iff (t : IntTy) (i : Int) :
    t.inRange i = true ↔
      if t.signed then -(((256 ^ t.width / 2 : Nat)) : Int) ≤ i ∧ i < (((256 ^ t.width / 2 : Nat)) : Int)
      else 0 ≤ i ∧ i < ((256 ^ t.width : Nat) : Int) := by
  unfold IntTy.inRange
  cases t.signed <;> simp

/-- **C20 (integers: all widths and signs).** For every integer type that
implements `WriteToHeader` and every value `i` of that type (`T::MIN ≤ i ≤ T::MAX`),
the payload `Payload.ofInt t i` is encoded — by `write_to`/`to_bytes` and by the
specification — as exactly `t.width` bytes (1, 2, 4, 8, 16; `usize`/`isize` = 8,
assumption A4), big-endian two's complement: read back as an unsigned big-endian
number, minus `256^width` when `i` is negative, the bytes give `i`. -/
theorem int_signed (t : IntTy) (i : Int) (h : t.inRange i = true) :
    ∃ bs, enc (Payload.ofInt t i) = some bs ∧ (Payload.ofInt t i).toBytes = some bs ∧
      (Payload.ofInt t i).size = t.width ∧ bs.length = t.width ∧
      ((beVal bs : Nat) : Int) - (if i < 0 then ((256 ^ t.width : Nat) : Int) else 0) = i := by
  obtain ⟨h1, h2, h3⟩ := int_twos t.width i (inRange_bounds t i h)
  exact ⟨_, h1, by rw [to_bytes]; exact h1, rfl, h2, h3⟩

/-- … and written into any writer with room for it, it appends those bytes and reports the width. -/
theorem int_signed_write (t : IntTy) (i : Int) (w : Writer) (hfit : w.length + t.width ≤ 65535 + 16) :
    (Payload.ofInt t i).writeTo w = .ok (t.width, w ++ intBE t.width (twos t.width i)) := by
  have hl : (intBE t.width (twos t.width i)).length = t.width := (int_big_endian _ _).2.1
  have := success_below_limit (Payload.ofInt t i) w _ rfl (by rw [hl]; exact hfit)
  rw [hl] at this; exact this

/-- The width table, spelled out. -/
theorem width_table :
    IntTy.u8.width = 1 ∧ IntTy.u16.width = 2 ∧ IntTy.u32.width = 4 ∧ IntTy.u64.width = 8 ∧
    IntTy.u128.width = 16 ∧ IntTy.usize.width = 8 ∧ IntTy.i8.width = 1 ∧ IntTy.i16.width = 2 ∧
    IntTy.i32.width = 4 ∧ IntTy.i64.width = 8 ∧ IntTy.i128.width = 16 ∧ IntTy.isize.width = 8 :=
  ⟨rfl, rfl, rfl, rfl, rfl, rfl, rfl, rfl, rfl, rfl, rfl, rfl⟩

/-- Non-vacuity: min / max / -1 of signed types, max of unsigned types are in range and encode as expected. -/
example : IntTy.i16.inRange (-2) = true ∧ (Payload.ofInt .i16 (-2)).toBytes = some [0xFF, 0xFE] := by decide
example : IntTy.i8.inRange (-128) = true ∧ IntTy.i8.inRange 127 = true ∧ IntTy.i8.inRange 128 = false ∧
    IntTy.i8.inRange (-129) = false ∧ IntTy.u8.inRange (-1) = false ∧ IntTy.u8.inRange 255 = true := by decide
example : (Payload.ofInt .i8 (-128)).toBytes = some [0x80] ∧ (Payload.ofInt .i8 127).toBytes = some [0x7F] ∧
    (Payload.ofInt .i32 (-1)).toBytes = some [0xFF, 0xFF, 0xFF, 0xFF] ∧
    (Payload.ofInt .u16 65535).toBytes = some [0xFF, 0xFF] := by decide
example : IntTy.i64.inRange (-9223372036854775808) = true ∧
    (Payload.ofInt .i64 (-9223372036854775808)).toBytes = some [0x80, 0, 0, 0, 0, 0, 0, 0] ∧
    IntTy.isize.inRange 9223372036854775807 = true ∧
    (Payload.ofInt .isize 9223372036854775807).toBytes =
      some [0x7F, 0xFF, 0xFF, 0xFF, 0xFF, 0xFF, 0xFF, 0xFF] := by decide +kernel
example : IntTy.i128.inRange (-170141183460469231731687303715884105728) = true ∧
    (Payload.ofInt .i128 (-170141183460469231731687303715884105728)).toBytes =
      some [0x80, 0, 0, 0, 0, 0, 0, 0, 0, 0, 0, 0, 0, 0, 0, 0] ∧
    IntTy.u128.inRange 340282366920938463463374607431768211455 = true ∧
    IntTy.u128.inRange 340282366920938463463374607431768211456 = false := by decide +kernel

/-! ### What a failed write leaves behind, exactly (audit 3, C20 (a)) -/

theorem writeChunksE_error_exact (w : Writer) (cs : List B) (w' : Writer)
    (h : Writer.writeChunksE w cs = .error w') :
    ∃ k, k < cs.length ∧ w' = w ++ (cs.take k).flatten ∧ cs[k]! ≠ [] ∧ writerLimit < w'.length ∧
      guardOk w (cs.take k) := by
  induction cs generalizing w with
  | nil => simp [Writer.writeChunksE] at h
  | cons c cs ih =>
    simp only [Writer.writeChunksE] at h
    cases hw : Writer.writeAll w c with
    | none =>
      rw [hw] at h
      have hww : w' = w := by injection h with h; exact h.symm
      subst hww
      obtain ⟨h1, h2⟩ := (writeAll_none_iff w' c).mp hw
      exact ⟨0, by simp, by simp, by simpa using h1, h2, trivial⟩
    | some w1 =>
      rw [hw] at h
      obtain ⟨hg, rfl⟩ := (writeAll_some_iff w c w1).mp hw
      obtain ⟨k, hk, rfl, h3, h4, h5⟩ := ih _ h
      refine ⟨k + 1, by simpa using hk, by simp, ?_, h4, ?_⟩
      · simpa using h3
      · simp only [List.take_succ_cons, guardOk]; exact ⟨hg, h5⟩

/-- **C20 (partial writes, exactly).** A failed `write_to` leaves the writer with
its old content followed by exactly the chunks before the first non-empty chunk
at whose start the buffer already exceeded the limit — or untouched when the
value is refused up front. (For a TLV: nothing, the type byte, or type and
length; never part of a chunk.) -/
theorem partial_write_exact (p : Payload) (w w' : Writer) (h : p.writeTo w = .error w') :
    (p.chunks = none ∧ w' = w) ∨
    ∃ cs k, p.chunks = some cs ∧ k < cs.length ∧ w' = w ++ (cs.take k).flatten ∧
      cs[k]! ≠ [] ∧ writerLimit < w'.length ∧ guardOk w (cs.take k) := by
  by_cases hp : ∃ t, p = .type t
  · obtain ⟨t, rfl⟩ := hp
    right
    simp only [Payload.writeTo, Writer.write] at h
    by_cases hg : w.length > writerLimit
    · simp only [hg, if_true] at h
      have hww : w' = w := by injection h with h; exact h.symm
      subst hww
      exact ⟨[[t.code]], 0, rfl, by simp, by simp, by simp, hg, trivial⟩
    · simp only [hg, if_false] at h
      cases h
  · have hp' : ∀ t, p ≠ .type t := fun t h => hp ⟨t, h⟩
    rw [writeTo_nontype p w hp'] at h
    cases hcs : p.chunks with
    | none => rw [hcs] at h; cases h; exact .inl ⟨rfl, rfl⟩
    | some cs =>
      rw [hcs] at h
      simp only at h
      cases hw : Writer.writeChunksE w cs with
      | error e =>
        rw [hw] at h; cases h
        obtain ⟨k, hk⟩ := writeChunksE_error_exact w cs _ hw
        exact .inr ⟨cs, k, rfl, hk⟩
      | ok w1 => rw [hw] at h; cases h

/-- Non-vacuity: at 65551 bytes a TLV's type byte is written and its length refused (`k = 1`). -/
example (w : Writer) (hw : w.length = 65551) : (Payload.tlv 4 []).writeTo w = .error (w ++ [4]) := by
  simp [Payload.writeTo, Payload.chunks, Writer.writeChunksE, Writer.writeAll, Writer.write,
    writerLimit, minLen, hw, be16Bytes]

/-- Values written one after another into the same writer (monadic fold of `writeTo`,
collecting the returned sizes). -/
def writeSeq : List Payload → Writer → Option (List Nat × Writer)
  | [], w => some ([], w)
  | p :: ps, w => match p.writeTo w with
    | .error _ => none
    | .ok (n, w1) => match writeSeq ps w1 with
      | none => none
      | some (ns, w2) => some (n :: ns, w2)

/-- The size a write reports is the size of *that* value, whatever was written into the same
writer before: any number of values written in sequence while the result still fits a full-size
header all succeed, each returns the length of its own encoding, and the writer ends up holding
its old content followed by the encodings in order. -/
theorem sequence_sizes (ps : List Payload) (es : List B) (w : Writer)
    (henc : ps.map enc = es.map some)
    (hfit : w.length + es.flatten.length ≤ 65535 + 16) :
    writeSeq ps w = some (es.map List.length, w ++ es.flatten) := by
  induction ps generalizing es w with
  | nil =>
    cases es with
    | nil => simp [writeSeq]
    | cons e es => simp at henc
  | cons p ps ih =>
    cases es with
    | nil => simp at henc
    | cons e es =>
      simp only [List.map_cons, List.cons.injEq] at henc
      simp only [List.flatten_cons, List.length_append] at hfit
      have h1 := success_below_limit p w e henc.1 (by omega)
      have h2 := ih es (w ++ e) henc.2 (by simp only [List.length_append]; omega)
      simp only [writeSeq, h1, h2, List.map_cons, List.flatten_cons, List.append_assoc]

/-- Non-vacuity: the same TLV written twice reports 6 both times (not 6 and 12). -/
example : writeSeq [Payload.tlv 4 [1, 2, 3], Payload.tlv 4 [1, 2, 3]] [9] =
    some ([6, 6], [9, 4, 0, 3, 1, 2, 3, 4, 0, 3, 1, 2, 3]) := by decide

end C20
