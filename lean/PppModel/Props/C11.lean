import PppModel.Spec.Tlv
import PppModel.Lemmas.Bytes

/-!
# C11 — TLV iteration yields exactly the standard walk and then stops
-/

namespace C11
open V2 Spec.Tlv

/-- One step of the iterator from a cursor inside the section, in terms of the
remaining bytes. -/
theorem next_at (bytes : B) (o : Nat) (ho : o < bytes.length) :
    (Iter.next { bytes := bytes, offset := o }) =
      match bytes.drop o with
      | t :: hi :: lo :: rest =>
        let n := hi.toNat * 256 + lo.toNat
        if rest.length < n then
          some (.error (.invalidTLV t n), { bytes := bytes, offset := bytes.length })
        else
          some (.ok { kind := t, value := rest.take n }, { bytes := bytes, offset := o + (3 + n) })
      | _ => some (.error (.leftovers bytes.length), { bytes := bytes, offset := bytes.length }) := by
  unfold Iter.next
  simp only [ge_iff_le, Nat.not_le.mpr ho, if_false, minTlvLen]
  rcases hd : bytes.drop o with _ | ⟨t, _ | ⟨hi, _ | ⟨lo, rest⟩⟩⟩
  · have := congrArg List.length hd
    simp at this; omega
  · simp
  · simp
  · simp only [List.length_cons, byteAt_cons_zero, byteAt_cons_succ, be16]
    have : ¬ (rest.length + 1 + 1 + 1 < 3) := by omega
    simp only [this, if_false]
    by_cases hlt : rest.length < hi.toNat * 256 + lo.toNat
    · have : rest.length + 1 + 1 + 1 < 3 + (hi.toNat * 256 + lo.toNat) := by omega
      simp [hlt, this]
    · have : ¬ rest.length + 1 + 1 + 1 < 3 + (hi.toNat * 256 + lo.toNat) := by omega
      simp only [hlt, this, if_false]
      congr 3
      rw [show 3 + (hi.toNat * 256 + lo.toNat) = (hi.toNat * 256 + lo.toNat) + 3 by omega]
      simp [List.take_succ_cons]

theorem next_none (bytes : B) (o : Nat) (ho : bytes.length ≤ o) :
    Iter.next { bytes := bytes, offset := o } = none := by
  simp [Iter.next, ho]

/-- Running the iterator from any cursor with enough fuel produces the reference
walk of the remaining bytes. -/
theorem run_eq_walkFrom (bytes : B) :
    ∀ (fuel o : Nat), o ≤ bytes.length → bytes.length - o < fuel →
      Iter.run fuel { bytes := bytes, offset := o } = walkFrom bytes.length (bytes.drop o) := by
  intro fuel
  induction fuel with
  | zero => intro o _ h; omega
  | succ fuel ih =>
    intro o ho hf
    by_cases hend : o = bytes.length
    · subst hend
      simp [Iter.run, next_none, walkFrom]
    · have ho' : o < bytes.length := by omega
      simp only [Iter.run, next_at bytes o ho']
      rcases hd : bytes.drop o with _ | ⟨t, _ | ⟨hi, _ | ⟨lo, rest⟩⟩⟩
      · have := congrArg List.length hd
        simp at this; omega
      · cases fuel <;> simp [walkFrom, Iter.run, next_none]
      · cases fuel <;> simp [walkFrom, Iter.run, next_none]
      · have hlen : (bytes.drop o).length = rest.length + 3 := by rw [hd]; simp
        simp only [List.length_drop] at hlen
        simp only [walkFrom]
        by_cases hlt : rest.length < hi.toNat * 256 + lo.toNat
        · simp only [hlt, if_true]
          cases fuel <;> simp [Iter.run, next_none]
        · simp only [hlt, if_false]
          congr 1
          have hdrop : bytes.drop (o + (3 + (hi.toNat * 256 + lo.toNat))) =
              rest.drop (hi.toNat * 256 + lo.toNat) := by
            rw [← List.drop_drop, hd]
            rw [show 3 + (hi.toNat * 256 + lo.toNat) = (hi.toNat * 256 + lo.toNat) + 3 by omega]
            simp
          rw [← hdrop]
          apply ih
          · omega
          · omega

/-- **C11, main statement.** Collecting the iterator over any byte string gives
exactly the reference walk. -/
theorem collect_eq_walk (bs : B) : tlvCollect bs = walk bs := by
  unfold tlvCollect Iter.collect Iter.ofBytes walk
  have := run_eq_walkFrom bs (bs.length + 1) 0 (by omega) (by simp)
  simpa using this

/-- The fuel in `Iter.collect` is not a bound on behaviour: any larger amount of
fuel (the Rust loop has none) produces the same items. -/
theorem fuel_irrelevant (bs : B) (fuel : Nat) (h : bs.length < fuel) :
    Iter.run fuel (Iter.ofBytes bs) = tlvCollect bs := by
  rw [collect_eq_walk]
  have := run_eq_walkFrom bs fuel 0 (by omega) (by simpa using h)
  simpa [Iter.ofBytes, walk] using this

/-- The section of an accepted header is walked the same way. -/
theorem header_tlvs_eq_walk (h : Header) : h.tlvs = walk h.tlvBytes := collect_eq_walk _

/-! ### Consequences stated in the property text, proved on the reference walk -/

/-- The decoded items tile the section from its start: their encodings,
concatenated, are a prefix of the section. -/
theorem walkFrom_tiles (total : Nat) (bs : B) : okBytes (walkFrom total bs) <+: bs := by
  fun_induction walkFrom total bs with
  | case1 => simp [okBytes]
  | case2 t hi lo rest n hlt => simp [okBytes]
  | case3 t hi lo rest n hge ih =>
    simp only [okBytes, enc]
    have hn : n ≤ rest.length := by omega
    have hlenn : (rest.take n).length = n := by simp; omega
    have hhi : UInt8.ofNat ((rest.take n).length / 256) = hi := by
      rw [hlenn]; have := hi.toNat_lt; have := lo.toNat_lt
      apply UInt8.toNat_inj.mp; simp [n]; omega
    have hlo : UInt8.ofNat ((rest.take n).length % 256) = lo := by
      rw [hlenn]; have := lo.toNat_lt
      apply UInt8.toNat_inj.mp; simp [n]
    rw [hhi, hlo]
    obtain ⟨s, hs⟩ := ih
    refine ⟨s, ?_⟩
    simp only [List.cons_append, List.append_assoc]
    rw [hs, List.take_append_drop]
  | case4 bs h1 h2 => simp [okBytes]

theorem tiling (bs : B) : okBytes (tlvCollect bs) <+: bs := by
  rw [collect_eq_walk]; exact walkFrom_tiles _ _

/-- The tiling is complete exactly when no error item was produced. -/
theorem walkFrom_complete_iff (total : Nat) (bs : B) :
    okBytes (walkFrom total bs) = bs ↔ ∀ it ∈ walkFrom total bs, isErr it = false := by
  fun_induction walkFrom total bs with
  | case1 => simp [okBytes]
  | case2 t hi lo rest n hlt => simp [okBytes, isErr]
  | case3 t hi lo rest n hge ih =>
    have hn : n ≤ rest.length := by omega
    have hlenn : (rest.take n).length = n := by simp; omega
    have hhi : UInt8.ofNat ((rest.take n).length / 256) = hi := by
      rw [hlenn]; have := hi.toNat_lt; have := lo.toNat_lt
      apply UInt8.toNat_inj.mp; simp [n]; omega
    have hlo : UInt8.ofNat ((rest.take n).length % 256) = lo := by
      rw [hlenn]; have := lo.toNat_lt
      apply UInt8.toNat_inj.mp; simp [n]
    simp only [okBytes, enc, hhi, hlo, List.mem_cons, forall_eq_or_imp]
    have he : isErr (Except.ok { kind := t, value := List.take n rest } : Item) = false := rfl
    simp only [he, true_and]
    rw [← ih]
    simp only [List.cons_append, List.cons.injEq, true_and]
    constructor
    · intro h
      have := congrArg (List.drop n) h
      simpa [List.drop_append, hlenn] using this
    · intro h
      rw [h, List.take_append_drop]
  | case4 bs h1 h2 =>
    simp only [okBytes, List.mem_singleton, forall_eq, isErr]
    constructor
    · intro h; subst h; exact absurd rfl h1
    · intro h; cases h

theorem tiling_complete_iff (bs : B) :
    okBytes (tlvCollect bs) = bs ↔ ∀ it ∈ tlvCollect bs, isErr it = false := by
  rw [collect_eq_walk]; exact walkFrom_complete_iff _ _

/-- At most one error item, and nothing after it. -/
theorem walkFrom_error_last (total : Nat) (bs : B) :
    ∀ pre e post, walkFrom total bs = pre ++ .error e :: post → post = [] := by
  fun_induction walkFrom total bs with
  | case1 => intro pre e post h; simp at h
  | case2 t hi lo rest n hlt =>
    intro pre e post h
    rcases pre with _ | ⟨p, pre⟩
    · simp at h; exact h.2
    · simp at h
  | case3 t hi lo rest n hge ih =>
    intro pre e post h
    rcases pre with _ | ⟨p, pre⟩
    · simp at h
    · simp only [List.cons_append, List.cons.injEq] at h
      exact ih pre e post h.2
  | case4 bs h1 h2 =>
    intro pre e post h
    rcases pre with _ | ⟨p, pre⟩
    · simp at h; exact h.2
    · simp at h

theorem error_last (bs : B) :
    ∀ pre e post, tlvCollect bs = pre ++ .error e :: post → post = [] := by
  rw [collect_eq_walk]; exact walkFrom_error_last _ _

/-- A section of `n` bytes yields at most `n / 3 + 1` items. -/
theorem walkFrom_count (total : Nat) (bs : B) : (walkFrom total bs).length ≤ bs.length / 3 + 1 := by
  fun_induction walkFrom total bs with
  | case1 => simp
  | case2 t hi lo rest n hlt => simp
  | case3 t hi lo rest n hge ih =>
    simp only [List.length_cons, List.length_drop] at ih ⊢
    omega
  | case4 bs h1 h2 => simp

theorem count_bound (bs : B) : (tlvCollect bs).length ≤ bs.length / 3 + 1 := by
  rw [collect_eq_walk]; exact walkFrom_count _ _

/-- After an error item the cursor is at the end, so the iterator is exhausted;
and an exhausted iterator stays exhausted (`next` does not move the cursor). -/
theorem after_error_exhausted (it it' : Iter) (e : ParseError)
    (h : it.next = some (.error e, it')) : it'.next = none := by
  unfold Iter.next at h
  split at h
  · cases h
  · dsimp only at h
    split at h
    · cases h; simp [Iter.next]
    · split at h
      · cases h; simp [Iter.next]
      · cases h

/-- Non-vacuity: a section with two items and a dangling byte. -/
example : tlvCollect [4, 0, 1, 42, 5, 0, 0, 9] =
    [.ok ⟨4, [42]⟩, .ok ⟨5, []⟩, .error (.leftovers 8)] := by decide

example : tlvCollect [4, 0, 1, 42, 5, 0xFF, 0xFF, 9] =
    [.ok ⟨4, [42]⟩, .error (.invalidTLV 5 65535)] := by decide

end C11
