import PppModel.Spec.Tlv
import PppModel.Lemmas.Bytes
import PppModel.Props.C02

/-!
# C11 — TLV iteration yields exactly the standard walk and then stops
-/

namespace C11
open V2 Spec.Tlv

/-- One step of the iterator from a cursor inside the section, in terms of the
remaining bytes. -/
theorem next_at (bytes : B) (o : Nat) (ho : o < bytes.length) :
    (Iter.next { bytes := bytes, offset := o }) =
      match bytes.drop o with
      | t :: hi :: lo :: rest =>
        let n := hi.toNat * 256 + lo.toNat
        if rest.length < n then
          some (.error (.invalidTLV t n), { bytes := bytes, offset := bytes.length })
        else
          some (.ok { kind := t, value := rest.take n }, { bytes := bytes, offset := o + (3 + n) })
      | _ => some (.error (.leftovers bytes.length), { bytes := bytes, offset := bytes.length }) := by
  unfold Iter.next
  simp only [ge_iff_le, Nat.not_le.mpr ho, if_false, minTlvLen]
  rcases hd : bytes.drop o with _ | ⟨t, _ | ⟨hi, _ | ⟨lo, rest⟩⟩⟩
  · have := congrArg List.length hd
    simp at this; omega
  · simp
  · simp
  · simp only [List.length_cons, byteAt_cons_zero, byteAt_cons_succ, be16]
    have : ¬ (rest.length + 1 + 1 + 1 < 3) := by omega
    simp only [this, if_false]
    by_cases hlt : rest.length < hi.toNat * 256 + lo.toNat
    · have : rest.length + 1 + 1 + 1 < 3 + (hi.toNat * 256 + lo.toNat) := by omega
      simp [hlt, this]
    · have : ¬ rest.length + 1 + 1 + 1 < 3 + (hi.toNat * 256 + lo.toNat) := by omega
      simp only [hlt, this, if_false]
      congr 3
      rw [show 3 + (hi.toNat * 256 + lo.toNat) = (hi.toNat * 256 + lo.toNat) + 3 by omega]
      simp [List.take_succ_cons]

theorem next_none (bytes : B) (o : Nat) (ho : bytes.length ≤ o) :
    Iter.next { bytes := bytes, offset := o } = none := by
  simp [Iter.next, ho]

/-- Running the iterator from any cursor with enough fuel produces the reference
walk of the remaining bytes. -/
theorem run_eq_walkFrom (bytes : B) :
    ∀ (fuel o : Nat), o ≤ bytes.length → bytes.length - o < fuel →
      Iter.run fuel { bytes := bytes, offset := o } = walkFrom bytes.length (bytes.drop o) := by
  intro fuel
  induction fuel with
  | zero => intro o _ h; omega
  | succ fuel ih =>
    intro o ho hf
    by_cases hend : o = bytes.length
    · subst hend
      simp [Iter.run, next_none, walkFrom]
    · have ho' : o < bytes.length := by omega
      simp only [Iter.run, next_at bytes o ho']
      rcases hd : bytes.drop o with _ | ⟨t, _ | ⟨hi, _ | ⟨lo, rest⟩⟩⟩
      · have := congrArg List.length hd
        simp at this; omega
      · cases fuel <;> simp [walkFrom, Iter.run, next_none]
      · cases fuel <;> simp [walkFrom, Iter.run, next_none]
      · have hlen : (bytes.drop o).length = rest.length + 3 := by rw [hd]; simp
        simp only [List.length_drop] at hlen
        simp only [walkFrom]
        by_cases hlt : rest.length < hi.toNat * 256 + lo.toNat
        · simp only [hlt, if_true]
          cases fuel <;> simp [Iter.run, next_none]
        · simp only [hlt, if_false]
          congr 1
          have hdrop : bytes.drop (o + (3 + (hi.toNat * 256 + lo.toNat))) =
              rest.drop (hi.toNat * 256 + lo.toNat) := by
            rw [← List.drop_drop, hd]
            rw [show 3 + (hi.toNat * 256 + lo.toNat) = (hi.toNat * 256 + lo.toNat) + 3 by omega]
            simp
          rw [← hdrop]
          apply ih
          · omega
          · omega

/-- **C11, main statement.** Collecting the iterator over any byte string gives
exactly the reference walk. -/
theorem collect_eq_walk (bs : B) : tlvCollect bs = walk bs := by
  unfold tlvCollect Iter.collect Iter.ofBytes walk
  have := run_eq_walkFrom bs (bs.length + 1) 0 (by omega) (by simp)
  simpa using this

/-- The fuel in `Iter.collect` is not a bound on behaviour: any larger amount of
fuel (the Rust loop has none) produces the same items. -/
theorem fuel_irrelevant (bs : B) (fuel : Nat) (h : bs.length < fuel) :
    Iter.run fuel (Iter.ofBytes bs) = tlvCollect bs := by
  rw [collect_eq_walk]
  have := run_eq_walkFrom bs fuel 0 (by omega) (by simpa using h)
  simpa [Iter.ofBytes, walk] using this

/-- The section of an accepted header is walked the same way. -/
theorem header_tlvs_eq_walk (h : Header) : h.tlvs = walk h.tlvBytes := collect_eq_walk _

/-! ### Consequences stated in the property text, proved on the reference walk -/

/-- The decoded items tile the section from its start: their encodings,
concatenated, are a prefix of the section. -/
theorem walkFrom_tiles (total : Nat) (bs : B) : okBytes (walkFrom total bs) <+: bs := by
  fun_induction walkFrom total bs with
  | case1 => simp [okBytes]
  | case2 t hi lo rest n hlt => simp [okBytes]
  | case3 t hi lo rest n hge ih =>
    simp only [okBytes, enc]
    have hn : n ≤ rest.length := by omega
    have hlenn : (rest.take n).length = n := by simp; omega
    have hhi : UInt8.ofNat ((rest.take n).length / 256) = hi := by
      rw [hlenn]; have := hi.toNat_lt; have := lo.toNat_lt
      apply UInt8.toNat_inj.mp; simp [n]; omega
    have hlo : UInt8.ofNat ((rest.take n).length % 256) = lo := by
      rw [hlenn]; have := lo.toNat_lt
      apply UInt8.toNat_inj.mp; simp [n]
    rw [hhi, hlo]
    obtain ⟨s, hs⟩ := ih
    refine ⟨s, ?_⟩
    simp only [List.cons_append, List.append_assoc]
    rw [hs, List.take_append_drop]
  | case4 bs h1 h2 => simp [okBytes]

theorem tiling (bs : B) : okBytes (tlvCollect bs) <+: bs := by
  rw [collect_eq_walk]; exact walkFrom_tiles _ _

/-- The tiling is complete exactly when no error item was produced. -/
theorem walkFrom_complete_iff (total : Nat) (bs : B) :
    okBytes (walkFrom total bs) = bs ↔ ∀ it ∈ walkFrom total bs, isErr it = false := by
  fun_induction walkFrom total bs with
  | case1 => simp [okBytes]
  | case2 t hi lo rest n hlt => simp [okBytes, isErr]
  | case3 t hi lo rest n hge ih =>
    have hn : n ≤ rest.length := by omega
    have hlenn : (rest.take n).length = n := by simp; omega
    have hhi : UInt8.ofNat ((rest.take n).length / 256) = hi := by
      rw [hlenn]; have := hi.toNat_lt; have := lo.toNat_lt
      apply UInt8.toNat_inj.mp; simp [n]; omega
    have hlo : UInt8.ofNat ((rest.take n).length % 256) = lo := by
      rw [hlenn]; have := lo.toNat_lt
      apply UInt8.toNat_inj.mp; simp [n]
    simp only [okBytes, enc, hhi, hlo, List.mem_cons, forall_eq_or_imp]
    have he : isErr (Except.ok { kind := t, value := List.take n rest } : Item) = false := rfl
    simp only [he, true_and]
    rw [← ih]
    simp only [List.cons_append, List.cons.injEq, true_and]
    constructor
    · intro h
      have := congrArg (List.drop n) h
      simpa [List.drop_append, hlenn] using this
    · intro h
      rw [h, List.take_append_drop]
  | case4 bs h1 h2 =>
    simp only [okBytes, List.mem_singleton, forall_eq, isErr]
    constructor
    · intro h; subst h; exact absurd rfl h1
    · intro h; cases h

theorem tiling_complete_iff (bs : B) :
    okBytes (tlvCollect bs) = bs ↔ ∀ it ∈ tlvCollect bs, isErr it = false := by
  rw [collect_eq_walk]; exact walkFrom_complete_iff _ _

/-- At most one error item, and nothing after it. -/
theorem walkFrom_error_last (total : Nat) (bs : B) :
    ∀ pre e post, walkFrom total bs = pre ++ .error e :: post → post = [] := by
  fun_induction walkFrom total bs with
  | case1 => intro pre e post h; simp at h
  | case2 t hi lo rest n hlt =>
    intro pre e post h
    rcases pre with _ | ⟨p, pre⟩
    · simp at h; exact h.2
    · simp at h
  | case3 t hi lo rest n hge ih =>
    intro pre e post h
    rcases pre with _ | ⟨p, pre⟩
    · simp at h
    · simp only [List.cons_append, List.cons.injEq] at h
      exact ih pre e post h.2
  | case4 bs h1 h2 =>
    intro pre e post h
    rcases pre with _ | ⟨p, pre⟩
    · simp at h; exact h.2
    · simp at h

theorem error_last (bs : B) :
    ∀ pre e post, tlvCollect bs = pre ++ .error e :: post → post = [] := by
  rw [collect_eq_walk]; exact walkFrom_error_last _ _

/-- A section of `n` bytes yields at most `n / 3 + 1` items. -/
theorem walkFrom_count (total : Nat) (bs : B) : (walkFrom total bs).length ≤ bs.length / 3 + 1 := by
  fun_induction walkFrom total bs with
  | case1 => simp
  | case2 t hi lo rest n hlt => simp
  | case3 t hi lo rest n hge ih =>
    simp only [List.length_cons, List.length_drop] at ih ⊢
    omega
  | case4 bs h1 h2 => simp

theorem count_bound (bs : B) : (tlvCollect bs).length ≤ bs.length / 3 + 1 := by
  rw [collect_eq_walk]; exact walkFrom_count _ _

/-- After an error item the cursor is at the end, so the iterator is exhausted;
and an exhausted iterator stays exhausted (`next` does not move the cursor). -/
theorem after_error_exhausted (it it' : Iter) (e : ParseError)
    (h : it.next = some (.error e, it')) : it'.next = none := by
  unfold Iter.next at h
  split at h
  · cases h
  · dsimp only at h
    split at h
    · cases h; simp [Iter.next]
    · split at h
      · cases h; simp [Iter.next]
      · cases h

/-- Non-vacuity: a section with two items and a dangling byte. -/
example : tlvCollect [4, 0, 1, 42, 5, 0, 0, 9] =
    [.ok ⟨4, [42]⟩, .ok ⟨5, []⟩, .error (.leftovers 8)] := by decide

example : tlvCollect [4, 0, 1, 42, 5, 0xFF, 0xFF, 9] =
    [.ok ⟨4, [42]⟩, .error (.invalidTLV 5 65535)] := by decide

/-! ### Additions after audit 4: the post-`None` state, the section of an accepted header,
a positional statement per item -/

/-- "Never yields an item after the end", part 1: `Iter.step` (the transcription of
`Iterator::next` that also returns the state left behind on `None`) leaves the state
unchanged when it returns `None`, exactly as the Rust returns before touching `offset`. -/
theorem step_none_stable (it : Iter) : (it.step).1 = none → (it.step).2 = it := by
  unfold Iter.step
  intro h
  split
  · rfl
  · rename_i hoff
    simp only [hoff, if_false] at h
    split at h
    · cases h
    · split at h <;> cases h

/-- `Iter.step` and `Iter.next` are the same function: same item, same successor state on
every item, and the unchanged state where `next` has none. -/
theorem step_eq_next (it : Iter) :
    it.step = match it.next with
      | none => (none, it)
      | some (i, it') => (some i, it') := by
  unfold Iter.step Iter.next
  split
  · rfl
  · dsimp only
    split
    · rfl
    · split <;> rfl

/-- `step` returns `None` exactly when `next` does, i.e. when the cursor is at or past the end. -/
theorem step_none_iff (it : Iter) : (it.step).1 = none ↔ it.next = none := by
  rw [step_eq_next]
  cases it.next with
  | none => simp
  | some p => simp

/-- "Never yields an item after the end", part 2 (fused): once a poll has returned `None`,
every later poll returns `None` and the state never changes again. -/
theorem step_none_forever (it : Iter) (h : (it.step).1 = none) (k : Nat) :
    Iter.poll k (it.step).2 = (List.replicate k none, it) := by
  rw [step_none_stable it h]
  induction k with
  | zero => rfl
  | succ k ih =>
    have hs : it.step = (none, it) := Prod.ext h (step_none_stable it h)
    simp only [Iter.poll, hs, ih, List.replicate_succ]

/-- "After an error", in the `step` form: the poll after an error item returns `None` and
leaves the state where the error left it (cursor at the end of the section). -/
theorem step_after_error (it : Iter) (e : ParseError) (h : (it.step).1 = some (.error e)) :
    (it.step).2.step = (none, (it.step).2) ∧ (it.step).2.offset = it.bytes.length := by
  have hs := step_eq_next it
  cases hn : it.next with
  | none => rw [hn] at hs; rw [hs] at h; cases h
  | some p =>
    obtain ⟨i, it'⟩ := p
    rw [hn] at hs
    dsimp only at hs
    rw [hs] at h ⊢
    simp only [Option.some.injEq] at h
    subst h
    have hex := after_error_exhausted it it' e hn
    refine ⟨by rw [step_eq_next, hex], ?_⟩
    unfold Iter.next at hn
    split at hn
    · cases hn
    · dsimp only at hn
      split at hn
      · cases hn; rfl
      · split at hn
        · cases hn; rfl
        · cases hn

/-- Non-vacuity: polling four times over a one-item section: the item, then `None` three
times with the cursor staying at 4. -/
example : Iter.poll 4 (Iter.ofBytes [4, 0, 1, 42]) =
    ([some (.ok ⟨4, [42]⟩), none, none, none], { bytes := [4, 0, 1, 42], offset := 4 }) := by decide

/-- Per-item positional statement: an item yielded at cursor `o` is the encoding found at
`o`, the new cursor is right behind it (no gap, no overlap), its value has fewer than
65536 bytes (so `Spec.Tlv.enc` is injective on yielded items and `tiling` means what it says). -/
theorem next_ok_at {it it' : Iter} {t : Tlv} (h : it.next = some (.ok t, it')) :
    it.bytes.drop it.offset = enc t ++ it.bytes.drop it'.offset ∧ t.value.length < 65536 := by
  have hoff : it.offset < it.bytes.length := by
    apply Nat.lt_of_not_le
    intro hle
    rw [show it = { bytes := it.bytes, offset := it.offset } from rfl, next_none _ _ hle] at h
    cases h
  rw [show it = { bytes := it.bytes, offset := it.offset } from rfl, next_at _ _ hoff] at h
  rcases hd : it.bytes.drop it.offset with _ | ⟨k, _ | ⟨hi, _ | ⟨lo, rest⟩⟩⟩
  · rw [hd] at h; cases h
  · rw [hd] at h; cases h
  · rw [hd] at h; cases h
  · rw [hd] at h
    dsimp only at h
    split at h
    · cases h
    · rename_i hge
      simp only [Option.some.injEq, Prod.mk.injEq, Except.ok.injEq] at h
      obtain ⟨rfl, rfl⟩ := h
      have hn : hi.toNat * 256 + lo.toNat ≤ rest.length := by omega
      have hlenn : (rest.take (hi.toNat * 256 + lo.toNat)).length = hi.toNat * 256 + lo.toNat := by
        simp; omega
      have hhi : UInt8.ofNat ((rest.take (hi.toNat * 256 + lo.toNat)).length / 256) = hi := by
        rw [hlenn]; have := hi.toNat_lt; have := lo.toNat_lt
        apply UInt8.toNat_inj.mp; simp; omega
      have hlo : UInt8.ofNat ((rest.take (hi.toNat * 256 + lo.toNat)).length % 256) = lo := by
        rw [hlenn]; have := lo.toNat_lt
        apply UInt8.toNat_inj.mp; simp
      have hdrop : it.bytes.drop (it.offset + (3 + (hi.toNat * 256 + lo.toNat))) =
          rest.drop (hi.toNat * 256 + lo.toNat) := by
        rw [← List.drop_drop, hd]
        rw [show 3 + (hi.toNat * 256 + lo.toNat) = (hi.toNat * 256 + lo.toNat) + 3 by omega]
        simp
      refine ⟨?_, ?_⟩
      · simp only [enc, hhi, hlo, hdrop, List.cons_append, List.take_append_drop]
      · simp only [hlenn]
        have := hi.toNat_lt; have := lo.toNat_lt
        omega

/-- Non-vacuity of `next_ok_at`: the second item of a two-item section. -/
example : (Iter.next { bytes := [4, 0, 1, 42, 5, 0, 0, 9], offset := 4 }) =
    some (.ok ⟨5, []⟩, { bytes := [4, 0, 1, 42, 5, 0, 0, 9], offset := 7 }) := by decide

/-- "The TLV section of any accepted header", which bytes it is: for a header that is the
wire encoding (`Spec.V2.encode`, independent of the model) of a command, a transport, an
address value of a family other than unspecified and a trailing section `rest`, followed by
arbitrary bytes, `tlvs()` yields exactly the reference walk of `rest`.

The hypothesis `hle` (the payload fits the 16-bit length field) is not in the statement the
audit suggested; without it the statement is false: the encoder's length field wraps, the
parser then accepts a shorter header and `h.tlvs` is the walk of a proper prefix of `rest`. -/
theorem header_tlvs_of_encode_partial {cmd : Command} {tr : Transport} {addr : Addresses}
    {rest trail : B} {h : Header}
    (hle : (Spec.V2.addrBytes addr).length + rest.length ≤ 65535)
    (hne : addr.family ≠ .unspec)
    (hp : V2.parse (Spec.V2.encode cmd tr addr rest ++ trail) = .ok h) :
    h.tlvs = walk rest := by
  have hq : V2.parse (Spec.V2.encode cmd tr addr rest ++ trail) = .ok (encHeader cmd tr addr rest) :=
    (C02.accept_iff _ _).mpr ⟨cmd, tr, addr, rest, trail, hle, rfl, rfl⟩
  rw [hq] at hp
  cases hp
  obtain ⟨-, -, -, h4⟩ := views_of_encode cmd tr addr rest
  rw [header_tlvs_eq_walk, h4, if_neg hne]

/-- The bound `hle` in `header_tlvs_of_encode_partial` cannot be dropped: with an IPv4
address block and a 65536-byte section starting `0, 0, 0` the payload has 65548 bytes, the
16-bit length field of the encoding wraps to 12, the parser accepts the 28-byte header with
an empty TLV section, while the walk of the section is not empty. -/
theorem header_tlvs_of_encode_needs_bound :
    ∃ (cmd : Command) (tr : Transport) (addr : Addresses) (rest trail : B) (h : Header),
      addr.family ≠ .unspec ∧
      V2.parse (Spec.V2.encode cmd tr addr rest ++ trail) = .ok h ∧
      h.tlvs = [] ∧ walk rest ≠ [] := by
  obtain ⟨tl, htl⟩ : ∃ tl : B, tl.length = 65533 := ⟨List.replicate 65533 0, List.length_replicate ..⟩
  let addr : Addresses :=
    .ipv4 { srcAddr := ⟨0, 0, 0, 0⟩, srcPort := 0, dstAddr := ⟨0, 0, 0, 0⟩, dstPort := 0 }
  have hx : Spec.V2.encode .proxy .stream addr (0 :: 0 :: 0 :: tl) ++ [] =
      Spec.V2.encode .proxy .stream addr [] ++ (0 :: 0 :: 0 :: tl) := by
    have ha : (Spec.V2.addrBytes addr).length = 12 := rfl
    have hu : Spec.V2.u16be (12 + (65533 + 1 + 1 + 1)) = Spec.V2.u16be (12 + 0) := by decide
    simp only [Spec.V2.encode, List.length_cons, htl, ha, List.length_nil, hu, List.append_nil,
      List.append_assoc]
  have hq : V2.parse (Spec.V2.encode .proxy .stream addr (0 :: 0 :: 0 :: tl) ++ []) =
      .ok (encHeader .proxy .stream addr []) := by
    rw [hx]
    exact (C02.accept_iff _ _).mpr ⟨.proxy, .stream, addr, [], _, by decide, rfl, rfl⟩
  refine ⟨.proxy, .stream, addr, 0 :: 0 :: 0 :: tl, [], _, by decide, hq, ?_, ?_⟩
  · obtain ⟨-, -, -, h4⟩ := views_of_encode .proxy .stream addr []
    show tlvCollect (encHeader .proxy .stream addr []).tlvBytes = []
    rw [h4]
    rfl
  · rw [walk, walkFrom]
    simp

/-- For the unspecified family the whole payload is the address view, so the TLV section
of an accepted header is empty and `tlvs()` yields nothing (the clause "section of every
accepted header" is vacuous for that family). -/
theorem header_tlvs_unspec {x : B} {h : Header} (hp : V2.parse x = .ok h)
    (hu : h.addressFamily = .unspec) : h.tlvs = [] := by
  obtain ⟨cmd, tr, addr, rest, trail, -, -, rfl⟩ := (C02.accept_iff x h).mp hp
  obtain ⟨-, -, -, h4⟩ := views_of_encode cmd tr addr rest
  have hu' : addr.family = .unspec := hu
  have : (encHeader cmd tr addr rest).tlvBytes = [] := by rw [h4, if_pos hu']
  show tlvCollect (encHeader cmd tr addr rest).tlvBytes = []
  rw [this]
  rfl

/-- Non-vacuity of `header_tlvs_of_encode_partial`: an IPv4 header with the section
`[4, 0, 1, 42]` and a two-byte trailer; the walk is the single item `(4, [42])`. -/
example :
    (V2.parse (Spec.V2.encode .proxy .stream
        (.ipv4 { srcAddr := ⟨127, 0, 0, 1⟩, srcPort := 80, dstAddr := ⟨192, 168, 1, 1⟩, dstPort := 443 })
        [4, 0, 1, 42] ++ [0x50, 0x52])).toOption.map Header.tlvs = some [.ok ⟨4, [42]⟩] ∧
    walk [4, 0, 1, 42] = [.ok ⟨4, [42]⟩] :=
  ⟨by decide, by rw [← collect_eq_walk]; decide⟩

/-- Non-vacuity of `header_tlvs_unspec`: a LOCAL / UNSPEC header with a 4-byte payload is
accepted, its family is unspecified, it has no TLVs. -/
example :
    (V2.parse [0x0D, 0x0A, 0x0D, 0x0A, 0x00, 0x0D, 0x0A, 0x51, 0x55, 0x49, 0x54, 0x0A,
               0x20, 0x00, 0x00, 0x04, 4, 0, 1, 42]).toOption.map
      (fun h => (h.addressFamily, h.tlvs, h.addressBytes)) =
      some (.unspec, [], [4, 0, 1, 42]) := by decide

end C11
