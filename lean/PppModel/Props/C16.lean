import PppModel.Auto
import PppModel.V2.Tlv
import PppModel.Lemmas.Utf8
import PppModel.Lemmas.V1NoPanic

/-!
# C16 — the v1 entry points agree; owned copies equal their borrowed originals

The text entry point (`TryFrom<&str>`), the byte entry point (`TryFrom<&[u8]>`) and the
two `FromStr` implementations all examine the same window of the input: the line through
the byte after its first CR (`V1.windowLength`).  For an input that is a `&str`
(`Utf8.valid x`):

* when the window does not end inside a multi-byte character, all four give the same
  outcome (`entry_points_agree`, `entry_points_agree_too_long`);
* when it does, all four return an error — `InvalidUtf8` from the byte entry point,
  `InvalidSuffix` from the text ones (`mid_char_all_errors`).

The bridge is `Utf8.valid_take_iff_boundary`: a prefix of a valid string is valid
exactly when it ends on a character boundary.

`owned_equal` records that `to_owned` is the identity in the model.  Ownership is erased
in the model (a header is the list of its bytes, borrowed or owned), so the equality is
`rfl`; the memory-safety clause of the claim — the owned value "remains valid after the
buffer is overwritten or dropped" — is a statement about Rust lifetimes and allocation,
it is observed by the harness on the real crate and is not provable in the model.

That the panic-aware entry points never panic is `V1.parseStr_no_panic` and
`V1.parseBytes_no_panic` in `PppModel/Lemmas/V1NoPanic.lean`.
-/

namespace C16

/-- The window never reaches past the input. -/
theorem windowLength_le {x : B} {n : Nat} (h : V1.windowLength x = some n) : n ≤ x.length :=
  V1.windowLength_le h

/-- Whenever the examined line — through the byte after its first CR — does not end
inside a multi-byte character, the text, byte and both `FromStr` entry points give the
same outcome. -/
theorem entry_points_agree (x : B) (hx : Utf8.valid x = true) (n : Nat)
    (hn : V1.windowLength x = some n) (hb : Utf8.isCharBoundary x n = true) :
    V1.parseBytes x = (match V1.parseStr x with | .ok h => .ok h | .error e => .error (.parse e)) ∧
    V1.fromStrHeader x = V1.parseStr x ∧
    V1.fromStrAddresses x =
      (match V1.parseStr x with | .ok h => .ok h.addresses | .error e => .error e) := by
  have hv : Utf8.valid (x.take n) = true := by
    rw [Utf8.valid_take_iff_boundary x hx n (V1.windowLength_le hn)]; exact hb
  have hs : V1.parseStr x = V1.parseHeader (x.take n) := by
    simp [V1.parseStr, hn, hb]
  refine ⟨?_, ?_, ?_⟩
  · rw [hs]
    simp only [V1.parseBytes, hn, hv, Bool.not_true, Bool.false_eq_true, if_false]
    cases V1.parseHeader (x.take n) <;> rfl
  · unfold V1.fromStrHeader; cases V1.parseStr x <;> rfl
  · unfold V1.fromStrAddresses; cases V1.parseStr x <;> rfl

/-- No CR within the first 107 bytes: every entry point reports `HeaderTooLong`. -/
theorem entry_points_agree_too_long (x : B) (hw : V1.windowLength x = none) :
    V1.parseBytes x = .error (.parse .headerTooLong) ∧
    V1.parseStr x = .error .headerTooLong ∧
    V1.fromStrHeader x = .error .headerTooLong ∧
    V1.fromStrAddresses x = .error .headerTooLong := by
  have hs : V1.parseStr x = .error .headerTooLong := by simp [V1.parseStr, hw]
  refine ⟨by simp [V1.parseBytes, hw], hs, ?_, ?_⟩
  · simp [V1.fromStrHeader, hs]
  · simp [V1.fromStrAddresses, hs]

/-- When the examined line ends inside a multi-byte character, every entry point
returns an error. -/
theorem mid_char_all_errors (x : B) (hx : Utf8.valid x = true) (n : Nat)
    (hn : V1.windowLength x = some n) (hb : Utf8.isCharBoundary x n = false) :
    V1.parseBytes x = .error .invalidUtf8 ∧
    V1.parseStr x = .error .invalidSuffix ∧
    V1.fromStrHeader x = .error .invalidSuffix ∧
    V1.fromStrAddresses x = .error .invalidSuffix := by
  have hv : Utf8.valid (x.take n) = false := by
    rw [Utf8.valid_take_iff_boundary x hx n (V1.windowLength_le hn)]; exact hb
  have hs : V1.parseStr x = .error .invalidSuffix := by simp [V1.parseStr, hn, hb]
  refine ⟨by simp [V1.parseBytes, hn, hv], hs, ?_, ?_⟩
  · simp [V1.fromStrHeader, hs]
  · simp [V1.fromStrAddresses, hs]

/-- `to_owned` is the identity on v1 headers, v2 headers and TLVs.  Ownership is erased
in the model, so these are `rfl`; that the owned value survives the buffer being
overwritten or dropped is observed by the harness, not provable here. -/
theorem owned_equal :
    (∀ h : V1.Header, h.toOwned = h) ∧ (∀ h : V2.Header, h.toOwned = h) ∧
    (∀ t : V2.Tlv, t.toOwned = t) :=
  ⟨fun _ => rfl, fun _ => rfl, fun _ => rfl⟩

/-! ## Non-vacuity -/

/-- "\r€": the window (2 bytes) ends inside the three-byte character. -/
example : Utf8.valid [0x0D, 0xE2, 0x82, 0xAC] = true := by decide
example : V1.windowLength [0x0D, 0xE2, 0x82, 0xAC] = some 2 := by decide
example : Utf8.isCharBoundary [0x0D, 0xE2, 0x82, 0xAC] 2 = false := by decide
example : V1.parseStr [0x0D, 0xE2, 0x82, 0xAC] = .error .invalidSuffix := by decide
example : V1.parseBytes [0x0D, 0xE2, 0x82, 0xAC] = .error .invalidUtf8 := by decide

/-- "PROXY UNKNOWN\r€": a real prefix whose window (15 bytes) cuts the character. -/
private def cut : B :=
  [0x50,0x52,0x4F,0x58,0x59,0x20,0x55,0x4E,0x4B,0x4E,0x4F,0x57,0x4E,0x0D,0xE2,0x82,0xAC]
example : Utf8.valid cut = true ∧ V1.windowLength cut = some 15 ∧
    Utf8.isCharBoundary cut 15 = false := by decide
example : V1.parseBytes cut = .error .invalidUtf8 ∧ V1.parseStr cut = .error .invalidSuffix ∧
    V1.fromStrHeader cut = .error .invalidSuffix ∧ V1.fromStrAddresses cut = .error .invalidSuffix :=
  mid_char_all_errors cut (by decide) 15 (by decide) (by decide)

/-- "PROXY UNKNOWN\r\n€": the window ends on a boundary, the multi-byte character
follows it, and every entry point accepts. -/
private def good : B :=
  [0x50,0x52,0x4F,0x58,0x59,0x20,0x55,0x4E,0x4B,0x4E,0x4F,0x57,0x4E,0x0D,0x0A,0xE2,0x82,0xAC]
example : Utf8.valid good = true ∧ V1.windowLength good = some 15 ∧
    Utf8.isCharBoundary good 15 = true := by decide
example : V1.parseStr good = .ok { header := good.take 15, addresses := .unknown } := by decide
example : V1.parseBytes good = .ok { header := good.take 15, addresses := .unknown } := by decide
example : V1.fromStrAddresses good = .ok .unknown := by decide

/-! ## The packaged statement -/

/-- **C16 (agreement, as the property states it).** For every input that is a `&str`,
either all four entry points give the same outcome — the byte entry point wrapping the
text error in `BinaryParseError::Parse`, `FromStr for Addresses` projecting the
addresses — or the examined window ends inside a multi-byte character and all four
return an error (`InvalidUtf8` from bytes, `InvalidSuffix` from the three text ones). -/
theorem entry_points (x : B) (hx : Utf8.valid x = true) :
    (V1.parseBytes x = (match V1.parseStr x with | .ok h => .ok h | .error e => .error (.parse e)) ∧
      V1.fromStrHeader x = V1.parseStr x ∧
      V1.fromStrAddresses x = (V1.parseStr x).map (·.addresses))
    ∨ (V1.parseBytes x = .error .invalidUtf8 ∧ V1.parseStr x = .error .invalidSuffix ∧
      V1.fromStrHeader x = .error .invalidSuffix ∧ V1.fromStrAddresses x = .error .invalidSuffix) := by
  have hmap : V1.fromStrAddresses x = (V1.parseStr x).map (·.addresses) := by
    unfold V1.fromStrAddresses; cases V1.parseStr x <;> rfl
  cases hw : V1.windowLength x with
  | none =>
    obtain ⟨h1, h2, h3, -⟩ := entry_points_agree_too_long x hw
    exact .inl ⟨by rw [h1, h2], by rw [h3, h2], hmap⟩
  | some n =>
    cases hb : Utf8.isCharBoundary x n with
    | true =>
      obtain ⟨h1, h2, -⟩ := entry_points_agree x hx n hw hb
      exact .inl ⟨h1, h2, hmap⟩
    | false => exact .inr (mid_char_all_errors x hx n hw hb)

/-- **C16 (when the entry points differ).** The second case of `entry_points` — the byte
entry point reports `InvalidUtf8`, the text ones `InvalidSuffix` — happens exactly when
the examined window (through the byte after the first CR) ends off a character boundary. -/
theorem entry_points_mid_char_iff (x : B) (hx : Utf8.valid x = true) :
    (V1.parseBytes x = .error .invalidUtf8 ∧ V1.parseStr x = .error .invalidSuffix ∧
      V1.fromStrHeader x = .error .invalidSuffix ∧ V1.fromStrAddresses x = .error .invalidSuffix) ↔
    ∃ n, V1.windowLength x = some n ∧ Utf8.isCharBoundary x n = false := by
  constructor
  · rintro ⟨hb, hs, -, -⟩
    cases hw : V1.windowLength x with
    | none =>
      rw [(entry_points_agree_too_long x hw).1] at hb; cases hb
    | some n =>
      cases hc : Utf8.isCharBoundary x n with
      | false => exact ⟨n, rfl, hc⟩
      | true =>
        have h1 := (entry_points_agree x hx n hw hc).1
        rw [hs] at h1
        rw [h1] at hb; cases hb
  · rintro ⟨n, hw, hc⟩
    exact mid_char_all_errors x hx n hw hc

/-- The byte entry point alone already decides the case: on a `&str` it reports
`InvalidUtf8` exactly when the window ends off a character boundary. -/
theorem parseBytes_invalidUtf8_iff (x : B) (hx : Utf8.valid x = true) :
    V1.parseBytes x = .error .invalidUtf8 ↔
      ∃ n, V1.windowLength x = some n ∧ Utf8.isCharBoundary x n = false := by
  constructor
  · intro hb
    rcases entry_points x hx with ⟨h1, -, -⟩ | h2
    · rw [hb] at h1
      cases hs : V1.parseStr x <;> rw [hs] at h1 <;> cases h1
    · exact (entry_points_mid_char_iff x hx).mp h2
  · intro h; exact ((entry_points_mid_char_iff x hx).mpr h).1

/-- The two cases of `entry_points` exclude each other. -/
theorem entry_points_exclusive (x : B)
    (h1 : V1.parseBytes x = (match V1.parseStr x with | .ok h => .ok h | .error e => .error (.parse e)))
    (h2 : V1.parseBytes x = .error .invalidUtf8) : False := by
  rw [h2] at h1
  cases hs : V1.parseStr x <;> rw [hs] at h1 <;> cases h1

/-- Hence the agreeing case holds exactly when there is no window (no CR within 107
bytes) or the window ends on a character boundary. -/
theorem entry_points_agree_iff (x : B) (hx : Utf8.valid x = true) :
    (V1.parseBytes x = (match V1.parseStr x with | .ok h => .ok h | .error e => .error (.parse e)) ∧
      V1.fromStrHeader x = V1.parseStr x ∧
      V1.fromStrAddresses x = (V1.parseStr x).map (·.addresses)) ↔
    (V1.windowLength x = none ∨ ∃ n, V1.windowLength x = some n ∧ Utf8.isCharBoundary x n = true) := by
  constructor
  · rintro ⟨h1, -, -⟩
    cases hw : V1.windowLength x with
    | none => exact .inl rfl
    | some n =>
      cases hc : Utf8.isCharBoundary x n with
      | true => exact .inr ⟨n, rfl, hc⟩
      | false => exact (entry_points_exclusive x h1 (mid_char_all_errors x hx n hw hc).1).elim
  · intro h
    rcases entry_points x hx with h1 | h2
    · exact h1
    · obtain ⟨n, hw, hc⟩ := (entry_points_mid_char_iff x hx).mp h2
      rcases h with h | ⟨m, hm, hc'⟩
      · rw [hw] at h; cases h
      · rw [hw] at hm; cases hm; rw [hc] at hc'; cases hc'

/-! ### Non-vacuity of the packaged statement: both cases occur on valid text -/

example : V1.parseBytes cut = .error .invalidUtf8 ∧ V1.parseStr cut = .error .invalidSuffix ∧
    V1.fromStrHeader cut = .error .invalidSuffix ∧ V1.fromStrAddresses cut = .error .invalidSuffix :=
  (entry_points_mid_char_iff cut (by decide)).mpr ⟨15, by decide, by decide⟩

example : V1.parseBytes good = (match V1.parseStr good with | .ok h => .ok h | .error e => .error (.parse e)) ∧
    V1.fromStrHeader good = V1.parseStr good ∧
    V1.fromStrAddresses good = (V1.parseStr good).map (·.addresses) :=
  (entry_points_agree_iff good (by decide)).mpr (.inr ⟨15, by decide, by decide⟩)

/-- `hx` is needed: on bytes that are not text (a CR and a stray continuation byte)
neither case of `entry_points` holds — the window is the whole input, so its end counts as
a boundary and the model of `TryFrom<&str>` (only meaningful on text) goes on to
`InvalidPrefix`, while the byte entry point stops at `InvalidUtf8`. -/
example : Utf8.valid [0x0D, 0x80] = false ∧ V1.windowLength [0x0D, 0x80] = some 2 ∧
    V1.parseBytes [0x0D, 0x80] = .error .invalidUtf8 ∧
    V1.parseStr [0x0D, 0x80] = .error .invalidPrefix := by decide

end C16
