import PppModel.Auto

/-! # C16 (theorems under construction) -/

namespace C16
end C16
