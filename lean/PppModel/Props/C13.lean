import PppModel.Props.C14
import PppModel.Props.C11
import PppModel.Lemmas.Builder
import PppModel.Props.C10
import PppModel.Props.C07

/-!
# C13 — re-encoding a parsed v2 header from its parts reproduces it byte for byte
-/

namespace C13
open V2 Spec.Builder

/-- Shared core: a builder started from the header's own control bytes, fed any
payload calls whose encodings concatenate to the payload after the
construction-time address block, rebuilds the header. -/
theorem rebuild_core (cmd : Command) (tr : Transport) (addr : Addresses) (rest : B)
    (hle : (Spec.V2.addrBytes addr).length + rest.length ≤ 65535)
    {b : Builder} {caddr : Addresses}
    (hb : Shape b (Spec.V2.versionCommand cmd) (Spec.V2.familyTransport addr.family tr) caddr none [])
    (ops : List Op) (e : B) (he : encAll (ops.flatMap opPayloads) = some e)
    (hno : lengthInForce ops = none)
    (hpay : Spec.V2.addrBytes caddr ++ e = Spec.V2.addrBytes addr ++ rest) :
    b.run ops = some (Spec.V2.encode cmd tr addr rest) := by
  have hlen : (Spec.V2.addrBytes caddr).length + e.length = (Spec.V2.addrBytes addr).length + rest.length := by
    have := congrArg List.length hpay
    simpa using this
  rw [run_succeeds hb ops e he (by omega), hno]
  simp only [buildOf, hlen, hle, if_true, hdrOf, Spec.V2.encode, sig_eq_spec, be16Bytes, Spec.V2.u16be]
  simp only [List.append_assoc, hpay]

theorem header_bytes {x : B} {h : Header} (hp : V2.parse x = .ok h) :
    byteAt h.header 12 = Spec.V2.versionCommand h.command ∧
    byteAt h.header 13 = Spec.V2.familyTransport h.addressFamily h.protocol := by
  obtain ⟨h1, h2, -, -⟩ := C14.family hp
  exact ⟨h2, h1⟩

/-- **C13 (raw).** Feeding the control bytes, the address bytes and the TLV
bytes back through the builder yields exactly the original header bytes. -/
theorem rebuild_raw {x : B} {h : Header} (hp : V2.parse x = .ok h) :
    (Builder.new (byteAt h.header 12) (byteAt h.header 13)).run
      [.writePayload (.slice h.addressBytes), .writePayload (.slice h.tlvBytes)] = some h.header ∧
    (Builder.new (byteAt h.header 12) (byteAt h.header 13)).run
      [.writePayload (.slice h.addressBytes), .writePayload (.tlvSection h.tlvBytes)] = some h.header := by
  obtain ⟨hb12, hb13⟩ := header_bytes hp
  obtain ⟨rest, hle, he⟩ := C14.accepted_is_encoding hp
  have hpart := C14.views_partition hp
  obtain ⟨-, hdrop, -, -⟩ := views_of_encode h.command h.protocol h.addresses rest
  rw [← he] at hdrop
  rw [hdrop] at hpart
  have hlens : h.addressBytes.length + h.tlvBytes.length = (Spec.V2.addrBytes h.addresses).length + rest.length := by
    have := congrArg List.length hpart; simpa using this
  have hhdr : h.header = Spec.V2.encode h.command h.protocol h.addresses rest := by
    conv => lhs; rw [he]
    rfl
  rw [hb12, hb13, hhdr]
  simp only [Header.addressFamily]
  constructor
  · refine rebuild_core h.command h.protocol h.addresses rest hle (shape_new _ _) _ (h.addressBytes ++ h.tlvBytes) ?_ rfl ?_
    · have h1 : h.addressBytes.length ≤ 65535 := by omega
      have h2 : h.tlvBytes.length ≤ 65535 := by omega
      simp [opPayloads, encAll, enc, h1, h2]
    · simpa [Spec.V2.addrBytes] using hpart
  · refine rebuild_core h.command h.protocol h.addresses rest hle (shape_new _ _) _ (h.addressBytes ++ h.tlvBytes) ?_ rfl ?_
    · have h1 : h.addressBytes.length ≤ 65535 := by omega
      simp [opPayloads, encAll, enc, h1]
    · simpa [Spec.V2.addrBytes] using hpart

/-- The decoded items of a well-formed section, as payloads. -/
def itemPayloads (items : List Item) : List Payload :=
  items.filterMap (fun i => match i with | .ok t => some (.tlv t.kind t.value) | .error _ => none)

theorem walk_values_le (total : Nat) (bs : B) :
    ∀ it ∈ Spec.Tlv.walkFrom total bs, ∀ t, it = .ok t → t.value.length ≤ 65535 := by
  fun_induction Spec.Tlv.walkFrom total bs with
  | case1 => intro it h; cases h
  | case2 t hi lo rest n hlt => intro it h t' ht; simp at h; subst h; cases ht
  | case3 t hi lo rest n hge ih =>
    intro it h t' ht
    rcases List.mem_cons.mp h with rfl | h
    · cases ht
      have := hi.toNat_lt; have := lo.toNat_lt
      simp only [List.length_take]; omega
    · exact ih it h t' ht
  | case4 bs h1 h2 => intro it h t' ht; simp at h; subst h; cases ht

theorem encAll_itemPayloads (items : List Item)
    (hv : ∀ it ∈ items, ∀ t, it = .ok t → t.value.length ≤ 65535) :
    encAll (itemPayloads items) = some (Spec.Tlv.okBytes items) := by
  induction items with
  | nil => rfl
  | cons it its ih =>
    have ih' := ih (fun i hi => hv i (List.mem_cons_of_mem _ hi))
    cases it with
    | error e => simpa [itemPayloads, Spec.Tlv.okBytes] using ih'
    | ok t =>
      have ht := hv (.ok t) (List.mem_cons_self ..) t rfl
      simp only [itemPayloads, List.filterMap_cons, Spec.Tlv.okBytes] at ih' ⊢
      simp only [encAll, enc, ht, if_true, ih']

/-- **C13 (decoded items).** When the TLV section is well-formed, feeding the
decoded items back yields the original header bytes. -/
theorem rebuild_items {x : B} {h : Header} (hp : V2.parse x = .ok h)
    (hwf : ∀ it ∈ h.tlvs, Spec.Tlv.isErr it = false) :
    (Builder.new (byteAt h.header 12) (byteAt h.header 13)).run
      [.writePayload (.slice h.addressBytes), .writePayloads (itemPayloads h.tlvs)] = some h.header := by
  obtain ⟨hb12, hb13⟩ := header_bytes hp
  obtain ⟨rest, hle, he⟩ := C14.accepted_is_encoding hp
  have hpart := C14.views_partition hp
  obtain ⟨-, hdrop, -, -⟩ := views_of_encode h.command h.protocol h.addresses rest
  rw [← he] at hdrop
  rw [hdrop] at hpart
  have hlens : h.addressBytes.length + h.tlvBytes.length = (Spec.V2.addrBytes h.addresses).length + rest.length := by
    have := congrArg List.length hpart; simpa using this
  have hhdr : h.header = Spec.V2.encode h.command h.protocol h.addresses rest := by
    conv => lhs; rw [he]
    rfl
  have htile : Spec.Tlv.okBytes h.tlvs = h.tlvBytes := (C11.tiling_complete_iff h.tlvBytes).mpr hwf
  have hvals : ∀ it ∈ h.tlvs, ∀ t, it = .ok t → t.value.length ≤ 65535 := by
    rw [C11.header_tlvs_eq_walk]; exact walk_values_le _ _
  rw [hb12, hb13, hhdr]
  simp only [Header.addressFamily]
  refine rebuild_core h.command h.protocol h.addresses rest hle (shape_new _ _) _ (h.addressBytes ++ h.tlvBytes) ?_ rfl ?_
  · have h1 : h.addressBytes.length ≤ 65535 := by omega
    simp only [List.flatMap_cons, List.flatMap_nil, opPayloads, List.append_nil, List.cons_append,
      List.nil_append, encAll, enc, h1, if_true, encAll_itemPayloads h.tlvs hvals, htile]
  · simpa [Spec.V2.addrBytes] using hpart

/-- **C13 (decoded addresses).** When an address family is specified, rebuilding
from the decoded address value and the TLV section yields the original bytes. -/
theorem rebuild_from_addresses {x : B} {h : Header} (hp : V2.parse x = .ok h)
    (hfam : h.addressFamily ≠ .unspec) :
    (Builder.withAddresses (vcByte h.version h.command) h.protocol h.addresses).run
      [.writePayload (.tlvSection h.tlvBytes)] = some h.header := by
  obtain ⟨rest, hle, he⟩ := C14.accepted_is_encoding hp
  obtain ⟨-, -, -, h4⟩ := views_of_encode h.command h.protocol h.addresses rest
  rw [← he] at h4
  have hfam' : h.addresses.family ≠ .unspec := hfam
  rw [if_neg hfam'] at h4
  have hhdr : h.header = Spec.V2.encode h.command h.protocol h.addresses rest := by
    conv => lhs; rw [he]
    rfl
  have hv : h.version = .two := by cases h.version; rfl
  rw [hv, vc_eq_spec, hhdr, h4]
  refine rebuild_core h.command h.protocol h.addresses rest hle ?_ _ rest ?_ rfl rfl
  · have := shape_withAddresses (Spec.V2.versionCommand h.command) h.protocol h.addresses
    rwa [afpByte_eq_spec] at this
  · simp [opPayloads, encAll, enc]

/-- **C13 (raw, one batch).** The same parts handed over as a single batch — the
first and only write of a fresh builder. -/
theorem rebuild_raw_batched {x : B} {h : Header} (hp : V2.parse x = .ok h) :
    (Builder.new (byteAt h.header 12) (byteAt h.header 13)).run
      [.writePayloads [.slice h.addressBytes, .slice h.tlvBytes]] = some h.header := by
  have := (rebuild_raw hp).1
  have hb := C10.batch_irrelevant (byteAt h.header 12) (byteAt h.header 13) [] []
    [.slice h.addressBytes, .slice h.tlvBytes]
  simp only [List.nil_append, List.map_cons, List.map_nil, List.append_nil] at hb
  rw [hb]; exact this

/-- **C13 (decoded addresses and items, one batch).** -/
theorem rebuild_from_addresses_items {x : B} {h : Header} (hp : V2.parse x = .ok h)
    (hfam : h.addressFamily ≠ .unspec) (hwf : ∀ it ∈ h.tlvs, Spec.Tlv.isErr it = false) :
    (Builder.withAddresses (vcByte h.version h.command) h.protocol h.addresses).run
      [.writePayloads (itemPayloads h.tlvs)] = some h.header := by
  obtain ⟨rest, hle, he⟩ := C14.accepted_is_encoding hp
  obtain ⟨-, -, -, h4⟩ := views_of_encode h.command h.protocol h.addresses rest
  rw [← he] at h4
  have hfam' : h.addresses.family ≠ .unspec := hfam
  rw [if_neg hfam'] at h4
  have hhdr : h.header = Spec.V2.encode h.command h.protocol h.addresses rest := by
    conv => lhs; rw [he]
    rfl
  have hv : h.version = .two := by cases h.version; rfl
  have htile : Spec.Tlv.okBytes h.tlvs = h.tlvBytes := (C11.tiling_complete_iff h.tlvBytes).mpr hwf
  have hvals : ∀ it ∈ h.tlvs, ∀ t, it = .ok t → t.value.length ≤ 65535 := by
    rw [C11.header_tlvs_eq_walk]; exact walk_values_le _ _
  rw [hv, vc_eq_spec, hhdr]
  refine rebuild_core h.command h.protocol h.addresses rest hle ?_ _ rest ?_ rfl rfl
  · have := shape_withAddresses (Spec.V2.versionCommand h.command) h.protocol h.addresses
    rwa [afpByte_eq_spec] at this
  · simp only [List.flatMap_cons, List.flatMap_nil, opPayloads, List.append_nil,
      encAll_itemPayloads h.tlvs hvals, htile, h4]

/-- Non-vacuity: an accepted IPv4 header with a well-formed section rebuilds. -/
example :
    (V2.parse [0x0D, 0x0A, 0x0D, 0x0A, 0x00, 0x0D, 0x0A, 0x51, 0x55, 0x49, 0x54, 0x0A,
               0x21, 0x11, 0x00, 0x10, 127, 0, 0, 1, 192, 168, 1, 1, 0, 80, 1, 187,
               4, 0, 1, 42]).toOption.map (fun h =>
        (Builder.new (byteAt h.header 12) (byteAt h.header 13)).run
          [.writePayload (.slice h.addressBytes), .writePayloads (itemPayloads h.tlvs)] == some h.header) =
      some true := by decide

/-- **C13 (augment).** A proxy that parses a header with a specified family and a well-formed
TLV section, and re-emits it from the decoded parts with further TLVs appended, produces (whenever
the result still fits) a header that parses back to the same command, transport and addresses
and to the old TLVs followed by the new ones, in order. -/
theorem augment {x : B} {h : Header} (_hp : V2.parse x = .ok h)
    (hfam : h.addressFamily ≠ .unspec) (items : List Tlv) (hitems : h.tlvs = items.map .ok)
    (extra : List Tlv) (hv : ∀ t ∈ extra, t.value.length ≤ 65535)
    (hfit : (Spec.V2.addrBytes h.addresses).length + ((items ++ extra).flatMap Spec.Tlv.enc).length ≤ 65535)
    (trail : B) :
    ∃ out h', (Builder.withAddresses (vcByte h.version h.command) h.protocol h.addresses).run
          (C07.tlvOps (items ++ extra)) = some out ∧
      V2.parse (out ++ trail) = .ok h' ∧ h'.header = out ∧
      h'.command = h.command ∧ h'.protocol = h.protocol ∧ h'.addresses = h.addresses ∧
      h'.tlvs = (items ++ extra).map .ok := by
  have hvi : ∀ t ∈ items, t.value.length ≤ 65535 := by
    intro t ht
    have hmem : (Except.ok t : Item) ∈ h.tlvs := by rw [hitems]; exact List.mem_map.mpr ⟨t, ht, rfl⟩
    rw [C11.header_tlvs_eq_walk] at hmem
    exact walk_values_le _ _ _ hmem t rfl
  have hall : ∀ t ∈ items ++ extra, t.value.length ≤ 65535 := by
    intro t ht
    rcases List.mem_append.mp ht with h1 | h1
    · exact hvi t h1
    · exact hv t h1
  have hver : h.version = .two := by cases h.version; rfl
  refine ⟨_, _, ?_, C07.parses_back h.command h.protocol h.addresses (items ++ extra) hfit trail, rfl, rfl, rfl, rfl, ?_⟩
  · rw [hver]; exact C07.build_is_encoding h.command h.protocol h.addresses (items ++ extra) hall hfit
  · exact C07.tlvs_back h.command h.protocol h.addresses (items ++ extra) hall hfam


/-- Non-vacuity of `augment`: the accepted header of the previous example, re-emitted with one more
TLV, parses back to the old item followed by the new one. -/
example :
    (V2.parse [0x0D, 0x0A, 0x0D, 0x0A, 0x00, 0x0D, 0x0A, 0x51, 0x55, 0x49, 0x54, 0x0A,
               0x21, 0x11, 0x00, 0x10, 127, 0, 0, 1, 192, 168, 1, 1, 0, 80, 1, 187,
               4, 0, 1, 42]).toOption.map (fun h =>
        ((Builder.withAddresses (vcByte h.version h.command) h.protocol h.addresses).run
          (C07.tlvOps ([⟨4, [42]⟩] ++ [⟨5, [1, 2]⟩]))).map (fun out =>
            (V2.parse out).toOption.map (fun h' => h'.tlvs == [.ok ⟨4, [42]⟩, .ok ⟨5, [1, 2]⟩] && h'.addresses == h.addresses))) =
      some (some (some true)) := by decide +kernel

/-! ### Further one-step corollaries (audit 3, C13 (a)) -/

/-- **C13 (decoded addresses, section as a byte slice).** `rebuild_from_addresses`
with the TLV section handed over as a plain byte slice. -/
theorem rebuild_from_addresses_slice {x : B} {h : Header} (hp : V2.parse x = .ok h)
    (hfam : h.addressFamily ≠ .unspec) :
    (Builder.withAddresses (vcByte h.version h.command) h.protocol h.addresses).run
      [.writePayload (.slice h.tlvBytes)] = some h.header := by
  obtain ⟨rest, hle, he⟩ := C14.accepted_is_encoding hp
  obtain ⟨-, -, -, h4⟩ := views_of_encode h.command h.protocol h.addresses rest
  rw [← he] at h4
  have hfam' : h.addresses.family ≠ .unspec := hfam
  rw [if_neg hfam'] at h4
  have hhdr : h.header = Spec.V2.encode h.command h.protocol h.addresses rest := by
    conv => lhs; rw [he]
    rfl
  have hv : h.version = .two := by cases h.version; rfl
  rw [hv, vc_eq_spec, hhdr, h4]
  refine rebuild_core h.command h.protocol h.addresses rest hle ?_ _ rest ?_ rfl rfl
  · have := shape_withAddresses (Spec.V2.versionCommand h.command) h.protocol h.addresses
    rwa [afpByte_eq_spec] at this
  · have h1 : rest.length ≤ 65535 := by omega
    simp [opPayloads, encAll, enc, h1]

/-- **C13 (`Builder::new` from the decoded fields).** The control bytes recomputed
from the decoded version, command, family and transport, the decoded address
value written as a payload, then the TLV section (as a byte slice, or as a
`TypeLengthValues`): the original header bytes. -/
theorem rebuild_new_addresses {x : B} {h : Header} (hp : V2.parse x = .ok h)
    (hfam : h.addressFamily ≠ .unspec) :
    (Builder.new (vcByte h.version h.command) (afpByte h.addressFamily h.protocol)).run
      [.writePayload (.addresses h.addresses), .writePayload (.slice h.tlvBytes)] = some h.header ∧
    (Builder.new (vcByte h.version h.command) (afpByte h.addressFamily h.protocol)).run
      [.writePayload (.addresses h.addresses), .writePayload (.tlvSection h.tlvBytes)] = some h.header := by
  obtain ⟨rest, hle, he⟩ := C14.accepted_is_encoding hp
  obtain ⟨-, -, -, h4⟩ := views_of_encode h.command h.protocol h.addresses rest
  rw [← he] at h4
  have hfam' : h.addresses.family ≠ .unspec := hfam
  rw [if_neg hfam'] at h4
  have hhdr : h.header = Spec.V2.encode h.command h.protocol h.addresses rest := by
    conv => lhs; rw [he]
    rfl
  have hv : h.version = .two := by cases h.version; rfl
  have h1 : rest.length ≤ 65535 := by omega
  rw [hv, vc_eq_spec, afpByte_eq_spec, hhdr, h4]
  simp only [Header.addressFamily]
  constructor
  · refine rebuild_core h.command h.protocol h.addresses rest hle (shape_new _ _) _
      (Spec.V2.addrBytes h.addresses ++ rest) ?_ rfl ?_
    · simp [opPayloads, encAll, enc, h1]
    · simp [Spec.V2.addrBytes]
  · refine rebuild_core h.command h.protocol h.addresses rest hle (shape_new _ _) _
      (Spec.V2.addrBytes h.addresses ++ rest) ?_ rfl ?_
    · simp [opPayloads, encAll, enc]
    · simp [Spec.V2.addrBytes]

/-- Non-vacuity: the accepted IPv4 header of the examples above has a specified family and
rebuilds from the decoded fields through `Builder::new`. -/
example :
    (V2.parse [0x0D, 0x0A, 0x0D, 0x0A, 0x00, 0x0D, 0x0A, 0x51, 0x55, 0x49, 0x54, 0x0A,
               0x21, 0x11, 0x00, 0x10, 127, 0, 0, 1, 192, 168, 1, 1, 0, 80, 1, 187,
               4, 0, 1, 42]).toOption.map (fun h =>
        h.addressFamily != .unspec &&
        (Builder.new (vcByte h.version h.command) (afpByte h.addressFamily h.protocol)).run
          [.writePayload (.addresses h.addresses), .writePayload (.slice h.tlvBytes)] == some h.header &&
        (Builder.withAddresses (vcByte h.version h.command) h.protocol h.addresses).run
          [.writePayload (.slice h.tlvBytes)] == some h.header) =
      some true := by decide +kernel

end C13
