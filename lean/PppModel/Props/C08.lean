import PppModel.Auto

/-! # C08 (theorems under construction) -/

namespace C08
end C08
