import PppModel.Auto
import PppModel.Lemmas.V1Accept
import PppModel.Lemmas.Utf8
import PppModel.Lemmas.Ipv4Port
import PppModel.Lemmas.Ipv6Roundtrip
import PppModel.Props.C18
import PppModel.Props.C01

/-!
# C08 — v1 formatting produces canonical lines that parse back to the same addresses

`V1.Addresses.format` is `impl Display for v1::Addresses`.  For **every** address value
(`UNKNOWN`, any IPv4 pair, any IPv6 pair, any ports; the Lean types `Ip4`, `Ip6`, `UInt16`
are exactly the value spaces):

* `format_is_line` — the formatted text is a well-formed line of the v1 grammar
  (`Spec.V1.Line`) denoting that value;
* `format_length` — it is at most 107 bytes long (in fact at most 104);
* `format_ascii`, `format_valid_utf8` — it is ASCII, hence text;
* `format_parses_back` — each of the four text entry points parses it back to the identical
  value, and the header text reported is the whole formatted line;
* `format_parses_back_with_trailer` — the same with arbitrary bytes after the line;
* `format_injective` — distinct address values never share a line;
* `display_is_header` — a parsed header formats back to exactly the text it was parsed
  from, which is a prefix of the input.
-/

namespace C08
open V1

/-! ## The component round trips -/

theorem dec_roundtrip (p : UInt16) : V1.parsePort (StdInt.dec p.toNat) = .ok p :=
  (V1.parsePort_iff _ p).mpr rfl

theorem ipv4_roundtrip (a : Ip4) : StdNet.parseIpv4 (StdNet.displayIpv4 a) = some a :=
  (StdNet.parseIpv4_iff _ a).mpr rfl

theorem ipv6_roundtrip (a : Ip6) : StdNet.parseIpv6 (StdNet.displayIpv6 a) = some a :=
  StdNet.parseIpv6_displayIpv6 a

/-! ## The formatted text is a line of the grammar -/

theorem displayIpv6_sepFree (a : Ip6) : sepFree (StdNet.displayIpv6 a) := by
  intro c hc
  obtain ⟨h1, h2⟩ := StdNet.displayIpv6_charset a c hc
  cases hs : isSep c with
  | false => rfl
  | true =>
    rcases (isSep_iff c).mp hs with h | h
    · exact absurd h h1
    · exact absurd h h2

/-- The text form of an IPv6 address is accepted by the address parser as that address and
contains no separator. -/
theorem ip6Model_display (a : Ip6) : ip6Model (StdNet.displayIpv6 a) a :=
  ⟨StdNet.parseIpv6_displayIpv6 a, displayIpv6_sepFree a⟩

theorem format_is_line (a : V1.Addresses) : Spec.V1.Line V1.ip6Model a.format a := by
  cases a with
  | unknown =>
    exact Spec.V1.Line.unknown [] (Or.inl rfl) (fun c hc => by cases hc)
  | tcp4 x =>
    cases x with
    | mk sa sp da dp =>
      exact Spec.V1.Line.tcp4 (StdNet.displayIpv4 sa) (StdNet.displayIpv4 da)
        (StdInt.dec sp.toNat) (StdInt.dec dp.toNat) sa da sp dp
        ((ipv4Text_iff_display _ _).mpr rfl) ((ipv4Text_iff_display _ _).mpr rfl)
        ((portText_iff_dec _ _).mpr rfl) ((portText_iff_dec _ _).mpr rfl)
  | tcp6 x =>
    cases x with
    | mk sa sp da dp =>
      exact Spec.V1.Line.tcp6 (StdNet.displayIpv6 sa) (StdNet.displayIpv6 da)
        (StdInt.dec sp.toNat) (StdInt.dec dp.toNat) sa da sp dp
        (ip6Model_display sa) (ip6Model_display da)
        ((portText_iff_dec _ _).mpr rfl) ((portText_iff_dec _ _).mpr rfl)

/-! ## Length -/

theorem format_length_104 (a : V1.Addresses) : a.format.length ≤ 104 := by
  cases a with
  | unknown => decide
  | tcp4 x =>
    have h1 := (StdNet.displayIpv4_length x.srcAddr).2
    have h2 := (StdNet.displayIpv4_length x.dstAddr).2
    have h3 := StdInt.dec_length_u16 _ x.srcPort.toNat_lt
    have h4 := StdInt.dec_length_u16 _ x.dstPort.toNat_lt
    simp only [Addresses.format, PROXY, TCP4, CRLF, List.length_append, List.length_cons,
      List.length_nil]
    omega
  | tcp6 x =>
    have h1 := StdNet.displayIpv6_length x.srcAddr
    have h2 := StdNet.displayIpv6_length x.dstAddr
    have h3 := StdInt.dec_length_u16 _ x.srcPort.toNat_lt
    have h4 := StdInt.dec_length_u16 _ x.dstPort.toNat_lt
    simp only [Addresses.format, PROXY, TCP6, CRLF, List.length_append, List.length_cons,
      List.length_nil]
    omega

theorem format_length (a : V1.Addresses) : a.format.length ≤ 107 :=
  Nat.le_trans (format_length_104 a) (by decide)

/-! ## Character set -/

theorem ascii_of_digit : ∀ c : UInt8, (0x30 ≤ c ∧ c ≤ 0x39) → c < 0x80 := by
  apply forall_uint8; decide +kernel

theorem ascii_of_addrChar : ∀ c : UInt8, StdNet.IsAddrChar c → c < 0x80 := by
  apply forall_uint8
  unfold StdNet.IsAddrChar StdNet.IsHexLower
  decide +kernel

theorem dec_ascii (n : Nat) : ∀ c ∈ StdInt.dec n, c < 0x80 :=
  fun c hc => ascii_of_digit c (StdInt.dec_digits n c hc)

theorem displayIpv4_ascii (a : Ip4) : ∀ c ∈ StdNet.displayIpv4 a, c < 0x80 := by
  intro c hc
  rcases StdNet.displayIpv4_charset a c hc with h | h
  · exact ascii_of_digit c h
  · subst h; decide

theorem displayIpv6_ascii (a : Ip6) : ∀ c ∈ StdNet.displayIpv6 a, c < 0x80 :=
  fun c hc => ascii_of_addrChar c (StdNet.displayIpv6_addrChars a c hc)

/-- "every byte is ASCII" distributes over `++`. -/
theorem ascii_append {s t : B} (hs : ∀ c ∈ s, c < 0x80) (ht : ∀ c ∈ t, c < 0x80) :
    ∀ c ∈ s ++ t, c < 0x80 := by
  intro c hc
  rcases List.mem_append.mp hc with h | h
  · exact hs c h
  · exact ht c h

theorem ascii_PROXY : ∀ c ∈ PROXY, c < 0x80 := by decide
theorem ascii_TCP4 : ∀ c ∈ TCP4, c < 0x80 := by decide
theorem ascii_TCP6 : ∀ c ∈ TCP6, c < 0x80 := by decide
theorem ascii_UNKNOWN : ∀ c ∈ UNKNOWN, c < 0x80 := by decide
theorem ascii_CRLF : ∀ c ∈ CRLF, c < 0x80 := by decide
theorem ascii_SP : ∀ c ∈ [SP], c < 0x80 := by decide

theorem format_ascii (a : V1.Addresses) : ∀ c ∈ a.format, c < 0x80 := by
  cases a with
  | unknown =>
    exact ascii_append (ascii_append (ascii_append ascii_PROXY ascii_SP) ascii_UNKNOWN) ascii_CRLF
  | tcp4 x =>
    exact ascii_append (ascii_append (ascii_append (ascii_append (ascii_append (ascii_append
      (ascii_append (ascii_append (ascii_append (ascii_append (ascii_append ascii_PROXY ascii_SP)
      ascii_TCP4) ascii_SP) (displayIpv4_ascii _)) ascii_SP) (displayIpv4_ascii _)) ascii_SP)
      (dec_ascii _)) ascii_SP) (dec_ascii _)) ascii_CRLF
  | tcp6 x =>
    exact ascii_append (ascii_append (ascii_append (ascii_append (ascii_append (ascii_append
      (ascii_append (ascii_append (ascii_append (ascii_append (ascii_append ascii_PROXY ascii_SP)
      ascii_TCP6) ascii_SP) (displayIpv6_ascii _)) ascii_SP) (displayIpv6_ascii _)) ascii_SP)
      (dec_ascii _)) ascii_SP) (dec_ascii _)) ascii_CRLF

theorem format_valid_utf8 (a : V1.Addresses) : Utf8.valid a.format = true :=
  Utf8.ascii_valid _ (format_ascii a)

/-! ## Parsing the formatted text -/

/-- The formatted text is its own window: its only CR is the one before the final LF. -/
theorem format_windowLength (a : V1.Addresses) : windowLength a.format = some a.format.length := by
  obtain ⟨body, -, hw⟩ := line_shape (format_is_line a)
  have hcr := (line_window (format_is_line a)).2.1
  have hlen : 2 ≤ a.format.length := by rw [hw]; simp
  simp only [windowLength, hcr, CRLF, List.length_cons, List.length_nil]
  congr 1
  omega

theorem format_parseHeader (a : V1.Addresses) : parseHeader a.format = .ok ⟨a.format, a⟩ :=
  parseHeader_ok_of_line (format_length a) (format_is_line a)

theorem format_parseBytes (a : V1.Addresses) : V1.parseBytes a.format = .ok ⟨a.format, a⟩ := by
  simp only [parseBytes, format_windowLength, List.take_length, format_valid_utf8,
    format_parseHeader]
  rfl

theorem format_parseStr (a : V1.Addresses) : V1.parseStr a.format = .ok ⟨a.format, a⟩ := by
  simp only [parseStr, format_windowLength, List.take_length, Utf8.isCharBoundary_length,
    format_parseHeader]
  rfl

/-- **C08.** Every text entry point parses the formatted text back to the identical value,
and reports the whole formatted line as the header text. -/
theorem format_parses_back (a : V1.Addresses) :
    V1.parseBytes a.format = .ok ⟨a.format, a⟩ ∧ V1.parseStr a.format = .ok ⟨a.format, a⟩ ∧
    V1.fromStrHeader a.format = .ok ⟨a.format, a⟩ ∧ V1.fromStrAddresses a.format = .ok a := by
  refine ⟨format_parseBytes a, format_parseStr a, ?_, ?_⟩
  · simp only [fromStrHeader, format_parseStr, Header.toOwned]
  · simp only [fromStrAddresses, format_parseStr]

theorem format_parses_back_tcp4 (x : IPv4) :
    V1.parseBytes (V1.Addresses.tcp4 x).format = .ok ⟨(V1.Addresses.tcp4 x).format, .tcp4 x⟩ :=
  (format_parses_back (.tcp4 x)).1

theorem format_parses_back_tcp6 (x : IPv6) :
    V1.parseBytes (V1.Addresses.tcp6 x).format = .ok ⟨(V1.Addresses.tcp6 x).format, .tcp6 x⟩ :=
  (format_parses_back (.tcp6 x)).1

theorem format_parses_back_unknown :
    V1.parseBytes V1.Addresses.unknown.format = .ok ⟨V1.Addresses.unknown.format, .unknown⟩ :=
  (format_parses_back .unknown).1

/-- Whatever follows the formatted line (payload, another header, garbage), the byte entry
point returns the same header. -/
theorem format_parses_back_with_trailer (a : V1.Addresses) (t : B) :
    V1.parseBytes (a.format ++ t) = .ok ⟨a.format, a⟩ := by
  obtain ⟨body, -, hw⟩ := line_shape (format_is_line a)
  have hcr := (line_window (format_is_line a)).2.1
  have hlen : 2 ≤ a.format.length := by rw [hw]; simp
  rw [C18.frozen_stable_bytes a.format t _ hcr (by omega)]
  exact format_parseBytes a

/-- The same through `TryFrom<&str>`, whose argument is text: the trailer is valid UTF-8
(a `&str` cannot continue with a stray continuation byte). -/
theorem format_parses_back_with_trailer_str (a : V1.Addresses) (t : B) (ht : Utf8.valid t = true) :
    V1.parseStr (a.format ++ t) = .ok ⟨a.format, a⟩ := by
  obtain ⟨body, -, hw⟩ := line_shape (format_is_line a)
  have hcr := (line_window (format_is_line a)).2.1
  have hlen : 2 ≤ a.format.length := by rw [hw]; simp
  obtain ⟨h1, h2⟩ := window_append_frozen t hcr (show a.format.length - 2 + 1 < a.format.length by omega)
  have e : a.format.length - 2 + 2 = a.format.length := by omega
  rw [e] at h1 h2
  have hb : Utf8.isCharBoundary (a.format ++ t) a.format.length = true := by
    have hv : Utf8.valid (a.format ++ t) = true := Utf8.valid_append _ _ (format_valid_utf8 a) ht
    have hx : a.format ++ t = (body ++ [CR]) ++ LF :: t := by rw [hw]; simp
    have hl : a.format.length = (body ++ [CR]).length + 1 := by rw [hw]; simp
    rw [hx] at hv
    rw [hl, hx]
    exact (Utf8.boundary_after_ascii (body ++ [CR]) LF t (by decide) hv).1
  simp only [parseStr, h1, h2, hb, List.take_length, format_parseHeader]
  rfl

/-! ## Distinct values never share a line -/

theorem format_injective (a b : V1.Addresses) (h : a.format = b.format) : a = b := by
  have ha := (format_parses_back a).2.2.2
  have hb := (format_parses_back b).2.2.2
  rw [h, hb] at ha
  cases ha
  rfl

/-! ## A parsed header displays as the text it was parsed from -/

/-- `parse_header` stores the text it was given. -/
theorem parseHeader_header {w : B} {h : Header} (hok : parseHeader w = .ok h) : h.header = w := by
  obtain ⟨-, proto, rest, -, hcase⟩ := parseHeader_ok_inv hok
  rcases hcase with ⟨-, a, b, p, q, rest', -, hfin⟩ | ⟨-, a, b, p, q, rest', -, hfin⟩ | ⟨-, -, rfl⟩
  · rw [(finish_ok hfin).2.2]
  · rw [(finish_ok hfin).2.2]
  · rfl

theorem display_is_header {x : B} {h : V1.Header} (hp : V1.parseBytes x = .ok h) :
    h.display = h.header ∧ h.header <+: x := by
  refine ⟨rfl, ?_⟩
  unfold parseBytes at hp
  split at hp
  · cases hp
  · rename_i n hn
    simp only at hp
    split at hp
    · cases hp
    · split at hp
      · cases hp
      · rename_i h' hh
        cases hp
        rw [parseHeader_header hh]
        exact List.take_prefix n x

/-- The same through `TryFrom<&str>`. -/
theorem display_is_header_str {x : B} {h : V1.Header} (hp : V1.parseStr x = .ok h) :
    h.display = h.header ∧ h.header <+: x := by
  refine ⟨rfl, ?_⟩
  unfold parseStr at hp
  split at hp
  · cases hp
  · rename_i n hn
    split at hp
    · cases hp
    · rw [parseHeader_header hp]
      exact List.take_prefix n x

/-- Formatting the addresses of a parsed canonical line and displaying the parsed header
agree: for a formatted line the stored text is the formatted text. -/
theorem display_of_format (a : V1.Addresses) {h : V1.Header} (hp : V1.parseBytes a.format = .ok h) :
    h.display = a.format ∧ h.addresses = a := by
  rw [format_parseBytes a] at hp
  cases hp
  exact ⟨rfl, rfl⟩

/-! ## Non-vacuity -/

/-- A concrete TCP6 value with different source and destination. -/
example :=
  format_parses_back (.tcp6
    { srcAddr := FixB.ofList 16 [0x20, 0x01, 0x0d, 0xb8, 0, 0, 0, 0, 0, 0, 0, 0, 0, 0, 0, 1],
      srcPort := 443,
      dstAddr := FixB.ofList 16 [0, 0, 0, 0, 0, 0, 0, 0, 0, 0, 0xff, 0xff, 192, 0, 2, 7],
      dstPort := 65535 })

example : V1.parseBytes V1.Addresses.unknown.format
    = .ok ⟨[0x50, 0x52, 0x4F, 0x58, 0x59, 0x20, 0x55, 0x4E, 0x4B, 0x4E, 0x4F, 0x57, 0x4E, 0x0D, 0x0A],
      .unknown⟩ :=
  format_parses_back_unknown

/-! ## The RFC 4291 form of "well-formed line", and trailers through the `FromStr` impls -/

/-- **C08 ("a well-formed v1 line").** The formatted text is a line of the v1 grammar with
the RFC 4291 text forms (`Spec.V1.Ipv6Text`) for the IPv6 addresses — the independent
specification, not the parser model — and it denotes exactly the formatted value. -/
theorem format_is_line_text (a : V1.Addresses) : Spec.V1.Line Spec.V1.Ipv6Text a.format a :=
  (C01.line_iff_text _ _).mp (format_is_line a)

/-- The text `Display` prints for an IPv6 address is an RFC 4291 text of that address. -/
theorem displayIpv6_is_text (a : Ip6) : Spec.V1.Ipv6Text (StdNet.displayIpv6 a) a :=
  (StdNet.parseIpv6_iff_text _ _).mp (StdNet.parseIpv6_displayIpv6 a)

/-- **C08 (trailer, `FromStr for Header`).** Whatever text follows the formatted line,
`str::parse::<Header>` returns the same header: the formatted line and the formatted value. -/
theorem format_fromStrHeader_with_trailer (a : V1.Addresses) (t : B) (ht : Utf8.valid t = true) :
    V1.fromStrHeader (a.format ++ t) = .ok ⟨a.format, a⟩ := by
  simp only [fromStrHeader, format_parses_back_with_trailer_str a t ht, Header.toOwned]

/-- **C08 (trailer, `FromStr for Addresses`).** Whatever text follows the formatted line,
`str::parse::<Addresses>` returns the formatted value. -/
theorem format_fromStrAddresses_with_trailer (a : V1.Addresses) (t : B) (ht : Utf8.valid t = true) :
    V1.fromStrAddresses (a.format ++ t) = .ok a := by
  simp only [fromStrAddresses, format_parses_back_with_trailer_str a t ht]

/-- **C08 (trailer, all four entry points).** -/
theorem format_parses_back_with_trailer_all (a : V1.Addresses) (t : B) (ht : Utf8.valid t = true) :
    V1.parseBytes (a.format ++ t) = .ok ⟨a.format, a⟩ ∧ V1.parseStr (a.format ++ t) = .ok ⟨a.format, a⟩ ∧
    V1.fromStrHeader (a.format ++ t) = .ok ⟨a.format, a⟩ ∧ V1.fromStrAddresses (a.format ++ t) = .ok a :=
  ⟨format_parses_back_with_trailer a t, format_parses_back_with_trailer_str a t ht,
    format_fromStrHeader_with_trailer a t ht, format_fromStrAddresses_with_trailer a t ht⟩

/-- Non-vacuity: a trailer that is text with a multi-byte character (`€GET`), after a TCP6
line with different source and destination. -/
example : Utf8.valid [0xE2, 0x82, 0xAC, 0x47, 0x45, 0x54] = true := by decide
example :=
  format_parses_back_with_trailer_all (.tcp6
    { srcAddr := FixB.ofList 16 [0x20, 0x01, 0x0d, 0xb8, 0, 0, 0, 0, 0, 0, 0, 0, 0, 0, 0, 1],
      srcPort := 443,
      dstAddr := FixB.ofList 16 [0, 0, 0, 0, 0, 0, 0, 0, 0, 0, 0xff, 0xff, 192, 0, 2, 7],
      dstPort := 65535 }) [0xE2, 0x82, 0xAC, 0x47, 0x45, 0x54] (by decide)

/-- The trailer hypothesis matters for the text entry points: after a stray continuation
byte (not text) `TryFrom<&str>`'s model reports `InvalidSuffix` while the byte entry point
still accepts. -/
example : V1.parseStr (V1.Addresses.unknown.format ++ [0x82]) = .error .invalidSuffix ∧
    V1.parseBytes (V1.Addresses.unknown.format ++ [0x82]) =
      .ok ⟨V1.Addresses.unknown.format, .unknown⟩ := by decide

end C08
