import PppModel.Basic

/-!
# `core::str::from_utf8` validity (Unicode 15 table 3-7) and `str::is_char_boundary`
-/

namespace Utf8

@[inline] def isCont (b : UInt8) : Bool := 0x80 ≤ b && b ≤ 0xBF

/-- Well-formed UTF-8 byte sequences. -/
def valid : B → Bool
  | [] => true
  | b0 :: rest =>
    if b0 < 0x80 then valid rest
    else if 0xC2 ≤ b0 && b0 ≤ 0xDF then
      match rest with
      | b1 :: r => isCont b1 && valid r
      | _ => false
    else if b0 == 0xE0 then
      match rest with
      | b1 :: b2 :: r => (0xA0 ≤ b1 && b1 ≤ 0xBF) && isCont b2 && valid r
      | _ => false
    else if (0xE1 ≤ b0 && b0 ≤ 0xEC) || (0xEE ≤ b0 && b0 ≤ 0xEF) then
      match rest with
      | b1 :: b2 :: r => isCont b1 && isCont b2 && valid r
      | _ => false
    else if b0 == 0xED then
      match rest with
      | b1 :: b2 :: r => (0x80 ≤ b1 && b1 ≤ 0x9F) && isCont b2 && valid r
      | _ => false
    else if b0 == 0xF0 then
      match rest with
      | b1 :: b2 :: b3 :: r => (0x90 ≤ b1 && b1 ≤ 0xBF) && isCont b2 && isCont b3 && valid r
      | _ => false
    else if 0xF1 ≤ b0 && b0 ≤ 0xF3 then
      match rest with
      | b1 :: b2 :: b3 :: r => isCont b1 && isCont b2 && isCont b3 && valid r
      | _ => false
    else if b0 == 0xF4 then
      match rest with
      | b1 :: b2 :: b3 :: r => (0x80 ≤ b1 && b1 ≤ 0x8F) && isCont b2 && isCont b3 && valid r
      | _ => false
    else false

/-- `str::is_char_boundary(index)` on the bytes of a valid string. -/
def isCharBoundary (x : B) (i : Nat) : Bool :=
  if i == 0 then true
  else if i ≥ x.length then i == x.length
  else !(isCont (byteAt x i))

end Utf8
