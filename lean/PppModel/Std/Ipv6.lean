import PppModel.Std.Ipv4

/-!
# `Ipv6Addr::from_str` / `Display`
-/

namespace StdNet

def readHex16 (s : B) : Option (Nat × B) := readNumber 16 4 true 65536 s

/-- `read_groups(p, groups)` with `groups.len() = limit`, from slot `i`, with
`fuel = limit - i` slots left. Returns the groups read from slot `i` on, whether
an embedded IPv4 address ended the read, and the remaining input. -/
def readGroupsFrom (limit : Nat) : Nat → Nat → B → List Nat × Bool × B
  | 0, _, s => ([], false, s)
  | fuel + 1, i, s =>
    let v4 := if i + 1 < limit then readSeparator 0x3A i readIpv4 s else none
    match v4 with
    | some (ip, rest) => ([be16 ip.a ip.b, be16 ip.c ip.d], true, rest)
    | none =>
      match readSeparator 0x3A i readHex16 s with
      | some (g, rest) =>
        let (gs, f, r) := readGroupsFrom limit fuel (i + 1) rest
        (g :: gs, f, r)
      | none => ([], false, s)

def readGroups (limit : Nat) (s : B) : List Nat × Bool × B := readGroupsFrom limit limit 0 s

/-- `read_ipv6_addr`: the eight 16-bit groups. -/
def readIpv6 (s : B) : Option (List Nat × B) :=
  let (head, headV4, s1) := readGroups 8 s
  if head.length == 8 then some (head, s1)
  else if headV4 then none
  else
    match readGivenChar 0x3A s1 with
    | none => none
    | some s2 =>
    match readGivenChar 0x3A s2 with
    | none => none
    | some s3 =>
      let limit := 8 - (head.length + 1)
      let (tail, _, s4) := readGroups limit s3
      some (head ++ List.replicate (8 - head.length - tail.length) 0 ++ tail, s4)

/-- Groups to the sixteen octets (`[u16; 8].into()`). -/
def groupsToOctets (gs : List Nat) : B := gs.flatMap (fun g => be16Bytes g)

/-- Octets to groups (`Ipv6Addr::segments`). -/
def segments (a : Ip6) : List Nat :=
  match a.val with
  | [b0, b1, b2, b3, b4, b5, b6, b7, b8, b9, b10, b11, b12, b13, b14, b15] =>
    [be16 b0 b1, be16 b2 b3, be16 b4 b5, be16 b6 b7, be16 b8 b9, be16 b10 b11, be16 b12 b13, be16 b14 b15]
  | _ => []

/-- `Ipv6Addr::from_str` -/
def parseIpv6 (s : B) : Option Ip6 :=
  match readIpv6 s with
  | some (gs, []) => some (FixB.ofList 16 (groupsToOctets gs))
  | _ => none

/-- Lower-case hexadecimal without leading zeros (`{:x}`). -/
def hexLowerDigit (d : Nat) : UInt8 := if d < 10 then UInt8.ofNat (48 + d) else UInt8.ofNat (87 + d)

def hexLower : Nat → B
  | n => if n < 16 then [hexLowerDigit n] else hexLower (n / 16) ++ [hexLowerDigit (n % 16)]
decreasing_by omega

/-- `fmt_subslice`: groups joined by `:`. -/
def fmtGroups : List Nat → B
  | [] => []
  | [g] => hexLower g
  | g :: gs => hexLower g ++ [0x3A] ++ fmtGroups gs

structure Span where
  start : Nat
  len : Nat
  deriving DecidableEq, Repr

/-- The zero-span search loop of `Display for Ipv6Addr`: state (longest, current). -/
def zeroSpanStep (st : Span × Span) (ig : Nat × Nat) : Span × Span :=
  let (longest, current) := st
  let (i, g) := ig
  if g == 0 then
    let current := if current.len == 0 then { current with start := i } else current
    let current := { current with len := current.len + 1 }
    let longest := if current.len > longest.len then current else longest
    (longest, current)
  else (longest, ⟨0, 0⟩)

def longestZeroSpan (gs : List Nat) : Span :=
  ((gs.zipIdx.map (fun (g, i) => (i, g))).foldl zeroSpanStep (⟨0, 0⟩, ⟨0, 0⟩)).1

/-- `impl Display for Ipv6Addr` (no width / precision) on the eight groups. -/
def displayGroups (gs : List Nat) : B :=
  match gs with
  | [0, 0, 0, 0, 0, 0xFFFF, x, y] =>
    [0x3A, 0x3A, 0x66, 0x66, 0x66, 0x66, 0x3A] ++
      displayIpv4 ⟨UInt8.ofNat (x / 256), UInt8.ofNat (x % 256), UInt8.ofNat (y / 256), UInt8.ofNat (y % 256)⟩
  | _ =>
    let z := longestZeroSpan gs
    if z.len > 1 then
      fmtGroups (gs.take z.start) ++ [0x3A, 0x3A] ++ fmtGroups (gs.drop (z.start + z.len))
    else fmtGroups gs

def displayIpv6 (a : Ip6) : B := displayGroups (segments a)

end StdNet
