import PppModel.Basic
import PppModel.Std.Int

/-!
# `Ipv4Addr::from_str` / `Display` (`core/src/net/parser.rs`, `ip_addr.rs`)

Parser functions take the remaining input and return the value together with
the new remaining input; `none` restores the state (every reader in the Rust
is wrapped in `read_atomically`).
-/

namespace StdNet

/-- `char::to_digit(radix)` for radix 10 and 16. -/
def digitVal (radix : Nat) (c : UInt8) : Option Nat :=
  if 0x30 ≤ c && c ≤ 0x39 then some (c.toNat - 0x30)
  else if radix == 16 then
    if 0x61 ≤ c && c ≤ 0x66 then some (c.toNat - 0x61 + 10)
    else if 0x41 ≤ c && c ≤ 0x46 then some (c.toNat - 0x41 + 10)
    else none
  else none

/-- The digit loop of `read_number` with `max_digits = Some(m)`: greedy; fails
as soon as more than `m` digits have been consumed. Returns value, digit count
and the remaining input. -/
def readDigits (radix maxDigits : Nat) : B → Nat → Nat → Option (Nat × Nat × B)
  | [], acc, cnt => some (acc, cnt, [])
  | c :: cs, acc, cnt =>
    match digitVal radix c with
    | none => some (acc, cnt, c :: cs)
    | some d =>
      if cnt + 1 > maxDigits then none
      else readDigits radix maxDigits cs (acc * radix + d) (cnt + 1)

/-- `read_number(radix, Some(max_digits), allow_zero_prefix)` into a type holding
values below `bound`. -/
def readNumber (radix maxDigits : Nat) (allowZeroPrefix : Bool) (bound : Nat) (s : B) : Option (Nat × B) :=
  let hasLeadingZero := s.head? == some 0x30
  match readDigits radix maxDigits s 0 0 with
  | none => none
  | some (v, cnt, rest) =>
    if cnt == 0 then none
    else if !allowZeroPrefix && hasLeadingZero && cnt > 1 then none
    else if v < bound then some (v, rest) else none

/-- `read_given_char` -/
def readGivenChar (c : UInt8) : B → Option B
  | [] => none
  | d :: rest => if d == c then some rest else none

/-- `read_separator(sep, index, inner)` -/
def readSeparator {α : Type} (sep : UInt8) (index : Nat) (inner : B → Option (α × B)) (s : B) : Option (α × B) :=
  if index > 0 then
    match readGivenChar sep s with
    | none => none
    | some s' => inner s'
  else inner s

def readOctet (s : B) : Option (Nat × B) := readNumber 10 3 false 256 s

/-- `read_ipv4_addr` -/
def readIpv4 (s : B) : Option (Ip4 × B) :=
  match readSeparator 0x2E 0 readOctet s with
  | none => none
  | some (a, s1) =>
  match readSeparator 0x2E 1 readOctet s1 with
  | none => none
  | some (b, s2) =>
  match readSeparator 0x2E 2 readOctet s2 with
  | none => none
  | some (c, s3) =>
  match readSeparator 0x2E 3 readOctet s3 with
  | none => none
  | some (d, s4) => some (⟨UInt8.ofNat a, UInt8.ofNat b, UInt8.ofNat c, UInt8.ofNat d⟩, s4)

/-- `Ipv4Addr::from_str` -/
def parseIpv4 (s : B) : Option Ip4 :=
  if s.length > 15 then none
  else match readIpv4 s with
    | some (a, []) => some a
    | _ => none

/-- `impl Display for Ipv4Addr` -/
def displayIpv4 (a : Ip4) : B :=
  StdInt.dec a.a.toNat ++ [0x2E] ++ StdInt.dec a.b.toNat ++ [0x2E] ++ StdInt.dec a.c.toNat ++ [0x2E] ++
    StdInt.dec a.d.toNat

end StdNet
