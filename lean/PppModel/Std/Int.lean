import PppModel.Basic

/-!
# `u16::from_str` and decimal `Display` of unsigned integers (`core::num`, `core::fmt::num`)
-/

namespace StdInt

inductive IntErrorKind where
  | empty
  | invalidDigit
  | posOverflow
  deriving DecidableEq, Repr

/-- `(c as char).to_digit(10)` -/
def decDigit (c : UInt8) : Option Nat :=
  if 0x30 ≤ c && c ≤ 0x39 then some (c.toNat - 0x30) else none

/-- The digit loop of `from_str_radix` for `u16`: an invalid digit is reported in
preference to an overflow at the same position; any overflow of `r*10 + d`
beyond `u16::MAX` is `PosOverflow`. -/
def parseDigits : B → Nat → Except IntErrorKind Nat
  | [], acc => .ok acc
  | c :: cs, acc =>
    match decDigit c with
    | none => .error .invalidDigit
    | some d =>
      if acc * 10 + d > 65535 then .error .posOverflow
      else parseDigits cs (acc * 10 + d)

/-- `<u16 as FromStr>::from_str` -/
def parseU16 (s : B) : Except IntErrorKind Nat :=
  match s with
  | [] => .error .empty
  | [c] => if c == 0x2B || c == 0x2D then .error .invalidDigit else parseDigits [c] 0
  | c :: rest => if c == 0x2B then parseDigits rest 0 else parseDigits (c :: rest) 0

/-- Decimal digits, most significant first (`{}` on an unsigned integer). -/
def dec : Nat → B
  | n => if n < 10 then [UInt8.ofNat (48 + n)] else dec (n / 10) ++ [UInt8.ofNat (48 + n % 10)]
decreasing_by omega

end StdInt
