/-!
# Basic vocabulary shared by every model file

Import-free on purpose: the driver executable links only if nothing it imports
touches Mathlib/Batteries.
-/

/-- Byte strings. Text is bytes everywhere (see DESIGN.md 4.1). -/
abbrev B := List UInt8

/-- `x[i]` with a default; every use in the *pure* layer is guarded by a length
check established earlier on the same path, and the panic-aware layer
(`…P` functions) checks the index explicitly. -/
def byteAt (x : B) (i : Nat) : UInt8 := x[i]?.getD 0

/-- `u16::from_be_bytes([hi, lo]) as usize`. -/
def be16 (hi lo : UInt8) : Nat := hi.toNat * 256 + lo.toNat

/-- `(n as u16).to_be_bytes()` for `n < 65536`. -/
def be16Bytes (n : Nat) : B := [UInt8.ofNat (n / 256), UInt8.ofNat (n % 256)]

deriving instance DecidableEq for Except

/-- Result of a Rust computation that may panic. -/
inductive Outcome (α : Type) where
  | val : α → Outcome α
  | panic : Outcome α
  deriving Repr, DecidableEq

namespace Outcome
@[inline] def bind {α β} (o : Outcome α) (f : α → Outcome β) : Outcome β :=
  match o with
  | .val a => f a
  | .panic => .panic
instance : Monad Outcome where
  pure := .val
  bind := Outcome.bind
end Outcome

/-- `x[i]`: panics unless `i < x.len()`. -/
def idxP (x : B) (i : Nat) : Outcome UInt8 :=
  if i < x.length then .val (byteAt x i) else .panic

/-- `&x[a..b]`: panics unless `a ≤ b ≤ x.len()`. -/
def sliceP (x : B) (a b : Nat) : Outcome B :=
  if a ≤ b ∧ b ≤ x.length then .val ((x.take b).drop a) else .panic

/-- `&x[a..]`. -/
def sliceFromP (x : B) (a : Nat) : Outcome B :=
  if a ≤ x.length then .val (x.drop a) else .panic

/-- `&x[..b]`. -/
def sliceToP (x : B) (b : Nat) : Outcome B :=
  if b ≤ x.length then .val (x.take b) else .panic

/-- `a - b` on `usize` in an overflow-checked build. -/
def subP (a b : Nat) : Outcome Nat :=
  if b ≤ a then .val (a - b) else .panic

/-- Fixed-size byte arrays `[u8; n]`. -/
def FixB (n : Nat) := { l : B // l.length = n }

instance (n : Nat) : DecidableEq (FixB n) := by unfold FixB; infer_instance

/-- `let mut a = [0; n]; a.copy_from_slice(bs)` for a slice of the right length
(padded / truncated otherwise so the function is total; the panic-aware layer
checks the length). -/
def FixB.ofList (n : Nat) (bs : B) : FixB n :=
  ⟨(bs ++ List.replicate n 0).take n, by simp⟩

theorem FixB.ofList_val {n : Nat} {bs : B} (h : bs.length = n) :
    (FixB.ofList n bs).val = bs := by
  simp [FixB.ofList, ← h]

theorem FixB.ofList_of_val {n : Nat} (a : FixB n) : FixB.ofList n a.val = a :=
  Subtype.ext (FixB.ofList_val a.property)

/-- `copy_from_slice` panics when the lengths differ. -/
def FixB.ofListP (n : Nat) (bs : B) : Outcome (FixB n) :=
  if bs.length = n then .val (FixB.ofList n bs) else .panic

/-- IPv4 address: the four octets, as `Ipv4Addr::new(a, b, c, d)`. -/
structure Ip4 where
  a : UInt8
  b : UInt8
  c : UInt8
  d : UInt8
  deriving DecidableEq, Repr

def Ip4.octets (x : Ip4) : B := [x.a, x.b, x.c, x.d]

/-- IPv6 address: sixteen octets in network order (`Ipv6Addr::from([u8; 16])`). -/
abbrev Ip6 := FixB 16

/-- `crate::ip::IPv4` -/
structure IPv4 where
  srcAddr : Ip4
  srcPort : UInt16
  dstAddr : Ip4
  dstPort : UInt16
  deriving DecidableEq

/-- `crate::ip::IPv6` -/
structure IPv6 where
  srcAddr : Ip6
  srcPort : UInt16
  dstAddr : Ip6
  dstPort : UInt16
  deriving DecidableEq

/-- `IPv4::new(source_address, destination_address, source_port, destination_port)`:
note the argument order differs from the field order. -/
def IPv4.new (sa da : Ip4) (sp dp : UInt16) : IPv4 :=
  { srcAddr := sa, srcPort := sp, dstAddr := da, dstPort := dp }

def IPv6.new (sa da : Ip6) (sp dp : UInt16) : IPv6 :=
  { srcAddr := sa, srcPort := sp, dstAddr := da, dstPort := dp }

/-- `p.to_be_bytes()` for a `u16`. -/
def portBytes (p : UInt16) : B := be16Bytes p.toNat

/-- `u16::from_be_bytes([hi, lo])`. -/
def portOf (hi lo : UInt8) : UInt16 := UInt16.ofNat (be16 hi lo)
