import PppModel.V2.Model

/-!
# PROXY protocol v2 wire format, as an encoder (proxy-protocol.txt section 2.2)

This file restates the protocol document. It shares the *data types* of the
model (addresses, command, transport) but none of its functions or tables.
-/

namespace Spec.V2
open _root_.V2

/-- `\r\n\r\n\0\r\nQUIT\n` -/
def signature : B := [0x0D, 0x0A, 0x0D, 0x0A, 0x00, 0x0D, 0x0A, 0x51, 0x55, 0x49, 0x54, 0x0A]

/-- 13th byte: protocol version 2 in the high nibble, command in the low one
(`\x0` LOCAL, `\x1` PROXY). -/
def versionCommand : Command → UInt8
  | .loc => 0x20
  | .proxy => 0x21

/-- 14th byte: address family in the high nibble (0 AF_UNSPEC, 1 AF_INET,
2 AF_INET6, 3 AF_UNIX), transport in the low one (0 UNSPEC, 1 STREAM, 2 DGRAM). -/
def familyNibble : Family → Nat
  | .unspec => 0 | .ipv4 => 1 | .ipv6 => 2 | .unix => 3

def transportNibble : Transport → Nat
  | .unspec => 0 | .stream => 1 | .dgram => 2

def familyTransport (f : Family) (t : Transport) : UInt8 :=
  UInt8.ofNat (familyNibble f * 16 + transportNibble t)

/-- Size of the address block of each family: 0, 12, 36, 216 bytes. -/
def familySize : Family → Nat
  | .unspec => 0 | .ipv4 => 12 | .ipv6 => 36 | .unix => 216

/-- A 16-bit quantity in network byte order. -/
def u16be (n : Nat) : B := [UInt8.ofNat (n / 256), UInt8.ofNat (n % 256)]

/-- The address block in network byte order: source address, destination
address, source port, destination port; two 108-byte paths for AF_UNIX;
nothing for AF_UNSPEC. -/
def addrBytes : Addresses → B
  | .unspec => []
  | .ipv4 a => [a.srcAddr.a, a.srcAddr.b, a.srcAddr.c, a.srcAddr.d] ++
               [a.dstAddr.a, a.dstAddr.b, a.dstAddr.c, a.dstAddr.d] ++
               u16be a.srcPort.toNat ++ u16be a.dstPort.toNat
  | .ipv6 a => a.srcAddr.val ++ a.dstAddr.val ++ u16be a.srcPort.toNat ++ u16be a.dstPort.toNat
  | .unix a => a.source.val ++ a.destination.val

/-- The whole header: signature, the two control bytes, the big-endian length of
everything that follows, the address block, then `rest` (the TLV section). -/
def encode (cmd : Command) (tr : Transport) (addr : Addresses) (rest : B) : B :=
  signature ++ [versionCommand cmd, familyTransport addr.family tr] ++
    u16be ((addrBytes addr).length + rest.length) ++ addrBytes addr ++ rest

end Spec.V2
