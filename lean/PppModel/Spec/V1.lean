import PppModel.V1.Model

/-!
# PROXY protocol v1 line grammar (proxy-protocol.txt section 2.1) and the textual
address forms it refers to (dotted-quad IPv4; RFC 4291 section 2.2 IPv6 text)

Shares only data types (`Ip4`, `Ip6`, `V1.Addresses`) with the model.
-/

namespace Spec.V1

def SP : UInt8 := 0x20
def CR : UInt8 := 0x0D
def LF : UInt8 := 0x0A
def DOT : UInt8 := 0x2E
def COLON : UInt8 := 0x3A

/-- `PROXY` -/
def kwPROXY : B := [0x50, 0x52, 0x4F, 0x58, 0x59]
/-- `TCP4`, `TCP6`, `UNKNOWN` -/
def kwTCP4 : B := [0x54, 0x43, 0x50, 0x34]
def kwTCP6 : B := [0x54, 0x43, 0x50, 0x36]
def kwUNKNOWN : B := [0x55, 0x4E, 0x4B, 0x4E, 0x4F, 0x57, 0x4E]

def isDigit (c : UInt8) : Prop := 0x30 ≤ c ∧ c ≤ 0x39

/-- Value of a string of decimal digits. -/
def decValue (ds : B) : Nat := ds.foldl (fun acc c => acc * 10 + (c.toNat - 0x30)) 0

/-- Plain decimal: at least one digit, digits only, no sign, no leading zero
(except the number zero itself). -/
def Decimal (s : B) (n : Nat) : Prop :=
  s ≠ [] ∧ (∀ c ∈ s, isDigit c) ∧ (s.head? = some 0x30 → s = [0x30]) ∧ decValue s = n

/-- A TCP port: plain decimal 0–65535. -/
def PortText (s : B) (p : UInt16) : Prop := Decimal s p.toNat

/-- Dotted-quad IPv4 without leading zeros. -/
def Ipv4Text (s : B) (a : Ip4) : Prop :=
  ∃ A B C D, Decimal A a.a.toNat ∧ Decimal B a.b.toNat ∧ Decimal C a.c.toNat ∧ Decimal D a.d.toNat ∧
    s = A ++ [DOT] ++ B ++ [DOT] ++ C ++ [DOT] ++ D

/-- Value of a hexadecimal digit (either case). -/
def hexDigitValue (c : UInt8) : Option Nat :=
  if 0x30 ≤ c ∧ c ≤ 0x39 then some (c.toNat - 0x30)
  else if 0x61 ≤ c ∧ c ≤ 0x66 then some (c.toNat - 0x61 + 10)
  else if 0x41 ≤ c ∧ c ≤ 0x46 then some (c.toNat - 0x41 + 10)
  else none

/-- One 16-bit piece: one to four hexadecimal digits. -/
def HexGroup (s : B) (g : Nat) : Prop :=
  1 ≤ s.length ∧ s.length ≤ 4 ∧
  ∃ ds : List Nat, s.map hexDigitValue = ds.map some ∧ ds.foldl (fun acc d => acc * 16 + d) 0 = g

/-- One or more hex groups separated by single colons. -/
inductive Groups : B → List Nat → Prop
  | one (s : B) (g : Nat) : HexGroup s g → Groups s [g]
  | cons (s : B) (g : Nat) (rest : B) (gs : List Nat) :
      HexGroup s g → Groups rest gs → Groups (s ++ [COLON] ++ rest) (g :: gs)

/-- The two 16-bit pieces a dotted quad stands for. -/
def v4Groups (a : Ip4) : List Nat := [a.a.toNat * 256 + a.b.toNat, a.c.toNat * 256 + a.d.toNat]

/-- A (possibly empty) run of pieces that may end in a dotted quad: the forms
allowed after `::` and for the whole uncompressed address. -/
inductive TailPieces : B → List Nat → Prop
  | empty : TailPieces [] []
  | groups (s : B) (gs : List Nat) : Groups s gs → TailPieces s gs
  | v4 (s : B) (a : Ip4) : Ipv4Text s a → TailPieces s (v4Groups a)
  | groupsV4 (s : B) (gs : List Nat) (t : B) (a : Ip4) :
      Groups s gs → Ipv4Text t a → TailPieces (s ++ [COLON] ++ t) (gs ++ v4Groups a)

/-- A (possibly empty) run of hex groups: the forms allowed before `::`. -/
inductive HeadPieces : B → List Nat → Prop
  | empty : HeadPieces [] []
  | groups (s : B) (gs : List Nat) : Groups s gs → HeadPieces s gs

/-- RFC 4291 section 2.2: the preferred form `x:x:x:x:x:x:x:x`, the compressed form
in which one `::` stands for one or more groups of zeros, and the mixed forms
whose last two pieces are written as a dotted quad. `gs` are the eight pieces. -/
inductive Ipv6Pieces : B → List Nat → Prop
  | full (s : B) (gs : List Nat) : TailPieces s gs → gs.length = 8 → Ipv6Pieces s gs
  | compressed (h : B) (hs : List Nat) (t : B) (ts : List Nat) :
      HeadPieces h hs → TailPieces t ts → hs.length + ts.length ≤ 7 →
      Ipv6Pieces (h ++ [COLON, COLON] ++ t) (hs ++ List.replicate (8 - hs.length - ts.length) 0 ++ ts)

/-- The sixteen octets of eight 16-bit pieces, in network order. -/
def piecesOctets (gs : List Nat) : B :=
  gs.flatMap (fun g => [UInt8.ofNat (g / 256), UInt8.ofNat (g % 256)])

def Ipv6Text (s : B) (a : Ip6) : Prop := ∃ gs, Ipv6Pieces s gs ∧ a.val = piecesOctets gs

/-- A well-formed v1 line, together with the addresses it denotes. The IPv6 text
form is a parameter so that the main theorem can be stated before (with
`fun s a => parser accepts`) and after (with `Ipv6Text`) the RFC 4291 grammar
equivalence is available. -/
inductive Line (ip6 : B → Ip6 → Prop) : B → V1.Addresses → Prop
  /-- `PROXY UNKNOWN`, optionally followed by a space and arbitrary text without CR. -/
  | unknown (tail : B) :
      (tail = [] ∨ tail.head? = some SP) → (∀ c ∈ tail, c ≠ CR) →
      Line ip6 (kwPROXY ++ [SP] ++ kwUNKNOWN ++ tail ++ [CR, LF]) .unknown
  /-- `PROXY TCP4 <src> <dst> <sport> <dport>`, single spaces. -/
  | tcp4 (sa da sp dp : B) (a b : Ip4) (p q : UInt16) :
      Ipv4Text sa a → Ipv4Text da b → PortText sp p → PortText dp q →
      Line ip6 (kwPROXY ++ [SP] ++ kwTCP4 ++ [SP] ++ sa ++ [SP] ++ da ++ [SP] ++ sp ++ [SP] ++ dp ++ [CR, LF])
        (.tcp4 { srcAddr := a, srcPort := p, dstAddr := b, dstPort := q })
  | tcp6 (sa da sp dp : B) (a b : Ip6) (p q : UInt16) :
      ip6 sa a → ip6 da b → PortText sp p → PortText dp q →
      Line ip6 (kwPROXY ++ [SP] ++ kwTCP6 ++ [SP] ++ sa ++ [SP] ++ da ++ [SP] ++ sp ++ [SP] ++ dp ++ [CR, LF])
        (.tcp6 { srcAddr := a, srcPort := p, dstAddr := b, dstPort := q })

end Spec.V1
