import PppModel.V2.Model
import PppModel.V2.Tlv

/-!
# The standard type-length-value walk (proxy-protocol.txt section 2.2.x)

Shares only the data types `Tlv`, `Item` and the two error constructors with
the model; none of its functions.
-/

namespace Spec.Tlv
open _root_.V2

/-- One TLV on the wire: type, big-endian 16-bit length, value. -/
def enc (t : V2.Tlv) : B :=
  t.kind :: UInt8.ofNat (t.value.length / 256) :: UInt8.ofNat (t.value.length % 256) :: t.value

/-- Repeatedly read one type byte, a big-endian 16-bit length and that many value
bytes. `total` is the length of the whole section (the `Leftovers` error reports
it). Fewer than three bytes left, or a value running past the end: one error
item, then stop. -/
def walkFrom (total : Nat) : B → List Item
  | [] => []
  | t :: hi :: lo :: rest =>
    let n := hi.toNat * 256 + lo.toNat
    if rest.length < n then [.error (.invalidTLV t n)]
    else .ok { kind := t, value := rest.take n } :: walkFrom total (rest.drop n)
  | _ => [.error (.leftovers total)]
termination_by bs => bs.length
decreasing_by simp; omega

def walk (bs : B) : List Item := walkFrom bs.length bs

/-- Concatenated encodings of the successfully decoded items. -/
def okBytes : List Item → B
  | [] => []
  | .ok t :: rest => enc t ++ okBytes rest
  | .error _ :: rest => okBytes rest

def isErr : Item → Bool
  | .ok _ => false
  | .error _ => true

end Spec.Tlv
