import PppModel.Basic

/-!
# UTF-8, specified by arithmetic (RFC 3629 section 3 / Unicode D92)

Independent of `Utf8.valid` (the byte-range table): a byte string is well-formed when it
is the concatenation of the shortest-form encodings of a list of Unicode scalar values.
-/

namespace Spec.Utf8

/-- Unicode scalar values: code points `0 ..= 0x10FFFF` minus the surrogates `0xD800 ..= 0xDFFF`. -/
def IsScalar (c : Nat) : Prop := c < 0xD800 ∨ (0xE000 ≤ c ∧ c < 0x110000)

instance (c : Nat) : Decidable (IsScalar c) := by unfold IsScalar; infer_instance

/-- The standard (shortest-form) encoding of a code point: 7, 5+6, 4+6+6 or 3+6+6+6 payload
bits behind the markers `0`, `110`/`10`, `1110`/`10`/`10`, `11110`/`10`/`10`/`10`. -/
def encode (c : Nat) : B :=
  if c < 0x80 then
    [UInt8.ofNat c]
  else if c < 0x800 then
    [UInt8.ofNat (0xC0 + c / 64), UInt8.ofNat (0x80 + c % 64)]
  else if c < 0x10000 then
    [UInt8.ofNat (0xE0 + c / 4096), UInt8.ofNat (0x80 + c / 64 % 64), UInt8.ofNat (0x80 + c % 64)]
  else
    [UInt8.ofNat (0xF0 + c / 262144), UInt8.ofNat (0x80 + c / 4096 % 64),
     UInt8.ofNat (0x80 + c / 64 % 64), UInt8.ofNat (0x80 + c % 64)]

/-- `x` is the encoding of some sequence of scalar values. -/
def WellFormed (x : B) : Prop :=
  ∃ cs : List Nat, (∀ c ∈ cs, IsScalar c) ∧ x = cs.flatMap encode

end Spec.Utf8
