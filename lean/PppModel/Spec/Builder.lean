import PppModel.V2.Builder
import PppModel.Spec.V2
import PppModel.Spec.Tlv

/-!
# Reference semantics of the builder (what C07, C09, C10, C20 require)

Shares the data types `Payload`, `Op`, `Addresses` with the model, none of its
functions. The wire encodings are restated from the protocol text.
-/

namespace Spec.Builder
open _root_.V2

/-- Registered TLV type codes (proxy-protocol.txt 2.2: PP2_TYPE_*). -/
def typeCode : TlvType → UInt8
  | .alpn => 0x01 | .authority => 0x02 | .crc32c => 0x03 | .noOp => 0x04 | .uniqueId => 0x05
  | .ssl => 0x20 | .sslVersion => 0x21 | .sslCommonName => 0x22 | .sslCipher => 0x23
  | .sslSignatureAlgorithm => 0x24 | .sslKeyAlgorithm => 0x25 | .networkNamespace => 0x30

/-- Big-endian encoding of a `width`-byte integer (two's complement is the
caller's reduction modulo `256^width`). -/
def intBE : Nat → Nat → B
  | 0, _ => []
  | w + 1, v => UInt8.ofNat (v / 256 ^ w % 256) :: intBE w v

/-- Wire encoding of a value, `none` when it must be refused because a length
does not fit in 16 bits. -/
def enc : Payload → Option B
  | .int w v => some (intBE w v)
  | .slice bs => if bs.length ≤ 65535 then some bs else none
  | .addresses a => some (Spec.V2.addrBytes a)
  | .tlv k v => if v.length ≤ 65535 then some (Spec.Tlv.enc ⟨k, v⟩) else none
  | .pair k v => if v.length ≤ 65535 then some (Spec.Tlv.enc ⟨k, v⟩) else none
  | .tlvSection bs => some bs
  | .type t => some [typeCode t]

/-- Encodings of a list of values, in order; `none` if any is refused. -/
def encAll : List Payload → Option B
  | [] => some []
  | p :: ps => match enc p, encAll ps with
    | some a, some b => some (a ++ b)
    | _, _ => none

/-- The payloads a call contributes, in call order. -/
def opPayloads : Op → List Payload
  | .writePayload p => [p]
  | .writePayloads ps => ps
  | .writeTlv k v => [.tlv k v]
  | .reserve _ => []
  | .setLength _ => []

/-- The explicit length in force after a call history: the most recent
`set_length`, if it supplied a value. -/
def lengthFrom (acc : Option Nat) (ops : List Op) : Option Nat :=
  ops.foldl (fun acc op => match op with | .setLength l => l | _ => acc) acc

def lengthInForce (ops : List Op) : Option Nat := lengthFrom none ops

/-- Everything after the construction-time address block. -/
def body (ops : List Op) : Option B := encAll (ops.flatMap opPayloads)

/-- The reference output: signature, the two control bytes as given, the length
field, the construction-time address block, the payload encodings in call
order. -/
def reference (vc afp : UInt8) (addr : Addresses) (ops : List Op) : Option B :=
  match body ops with
  | none => none
  | some bd =>
    let payload := Spec.V2.addrBytes addr ++ bd
    let len := (lengthInForce ops).getD payload.length
    some (Spec.V2.signature ++ [vc, afp] ++ Spec.V2.u16be len ++ payload)

end Spec.Builder
