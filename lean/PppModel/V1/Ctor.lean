import PppModel.V1.Model
import PppModel.V2.Model

/-!
# Constructors and socket-address conversions (`src/ip.rs`, `src/v1/model.rs`, `src/v2/model.rs`)
-/

/-- `std::net::SocketAddr`: the IP, the port; flow-info and scope id of a V6
socket address play no role in any conversion. -/
inductive SocketAddr where
  | v4 (ip : Ip4) (port : UInt16)
  | v6 (ip : Ip6) (port : UInt16) (flowinfo scopeId : Nat)

namespace V1
/-- `impl From<(SocketAddr, SocketAddr)> for v1::Addresses` -/
def Addresses.fromSockets : SocketAddr → SocketAddr → Addresses
  | .v4 s sp, .v4 d dp => .tcp4 (IPv4.new s d sp dp)
  | .v6 s sp _ _, .v6 d dp _ _ => .tcp6 (IPv6.new s d sp dp)
  | _, _ => .unknown

/-- `impl From<IPv4> for v1::Addresses`, `impl From<IPv6> for v1::Addresses` -/
def Addresses.fromIPv4 (a : IPv4) : Addresses := .tcp4 a
def Addresses.fromIPv6 (a : IPv6) : Addresses := .tcp6 a
/-- `impl Default for Addresses` -/
def Addresses.default : Addresses := .unknown
end V1

namespace V2
/-- `impl From<(SocketAddr, SocketAddr)> for v2::Addresses` -/
def Addresses.fromSockets : SocketAddr → SocketAddr → Addresses
  | .v4 s sp, .v4 d dp => .ipv4 (IPv4.new s d sp dp)
  | .v6 s sp _ _, .v6 d dp _ _ => .ipv6 (IPv6.new s d sp dp)
  | _, _ => .unspec

def Addresses.fromIPv4 (a : IPv4) : Addresses := .ipv4 a
def Addresses.fromIPv6 (a : IPv6) : Addresses := .ipv6 a
def Addresses.fromUnix (a : Unix) : Addresses := .unix a
end V2
