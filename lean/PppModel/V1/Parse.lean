import PppModel.V1.Model
import PppModel.Std.Utf8

/-!
# `src/v1/mod.rs`: the text parser (with the repairs D1–D6, `fix:` commits in /repo)
-/

namespace V1

def MAX_LENGTH : Nat := 107
def PARTS : Nat := 7

@[inline] def isSep (c : UInt8) : Bool := c == SP || c == CR

/-- `input.find('\r')` / `iter().position(|c| c == '\r')` -/
def firstCR : B → Option Nat
  | [] => none
  | c :: cs => if c == CR then some 0 else (firstCR cs).map (· + 1)

/-- Everything before the first separator, and what follows that separator (if any). -/
def splitOnce : B → B × Option B
  | [] => ([], none)
  | c :: cs =>
    if isSep c then ([], some cs)
    else
      let (a, r) := splitOnce cs
      (c :: a, r)

/-- `str::splitn(n, |c| c == ' ' || c == '\r')` -/
def splitN : Nat → B → List B
  | 0, _ => []
  | 1, s => [s]
  | n + 2, s =>
    match splitOnce s with
    | (a, none) => [a]
    | (a, some r) => a :: splitN (n + 1) r

/-- The window the entry points hand to `parse_header`: input up to its first CR
plus two bytes; `none` = `HeaderTooLong` (no CR within 107 bytes). -/
def windowLength (x : B) : Option Nat :=
  match firstCR x with
  | some i => some (min (i + CRLF.length) x.length)
  | none => if x.length ≥ MAX_LENGTH then none else some x.length

/-- The header can no longer change: the byte after the first CR is present. -/
def terminated (header : B) : Bool :=
  match firstCR header with
  | some i => i + 1 < header.length
  | none => false

/-- The port checks of `parse_addresses`: sign and leading zero are rejected
before `u16::from_str`. -/
def parsePort (s : B) : Except (Option StdInt.IntErrorKind) UInt16 :=
  if s.head? == some 0x2B || (s.head? == some 0x30 && s ≠ [0x30]) then .error none
  else match StdInt.parseU16 s with
    | .error k => .error (some k)
    | .ok n => .ok (UInt16.ofNat n)

/-- The four fields of `parse_addresses`, before conversion: the parts iterator
yields `parts`; a field that is absent is an error unless the line is
terminated (then it is the empty string); the destination port also counts as
absent when it is empty and nothing follows it. Returns the four field texts
and the remaining parts. -/
def takeFields (parts : List B) (term : Bool) : Except ParseError (B × B × B × B × List B) :=
  let absent : Option B := if term then some [] else none
  match parts.head?.or absent with
  | none => .error .missingSourceAddress
  | some sa =>
  let parts := parts.tail
  match parts.head?.or absent with
  | none => .error .missingDestinationAddress
  | some da =>
  let parts := parts.tail
  match parts.head?.or absent with
  | none => .error .missingSourcePort
  | some sp =>
  let parts := parts.tail
  match ((parts.head?.filter (fun p => !p.isEmpty || !parts.tail.isEmpty)).or absent) with
  | none => .error .missingDestinationPort
  | some dp => .ok (sa, da, sp, dp, parts.tail)

/-- `parse_addresses::<T, _>` with the address parser as a parameter. -/
def parseAddresses {α : Type} (parseAddr : B → Option α) (parts : List B) (term : Bool) :
    Except ParseError (α × α × UInt16 × UInt16 × List B) :=
  match takeFields parts term with
  | .error e => .error e
  | .ok (sa, da, sp, dp, rest) =>
  match parseAddr sa with
  | none => .error .invalidSourceAddress
  | some sa =>
  match parseAddr da with
  | none => .error .invalidDestinationAddress
  | some da =>
  match parsePort sp with
  | .error k => .error (.invalidSourcePort k)
  | .ok sp =>
  match parsePort dp with
  | .error k => .error (.invalidDestinationPort k)
  | .ok dp => .ok (sa, da, sp, dp, rest)

/-- The final newline check (`src/v1/mod.rs`, after the address match). -/
def finish (header : B) (addresses : Addresses) (rest : List B) : Except ParseError Header :=
  match rest.head?.filter (fun s => !s.isEmpty) with
  | none => .error (if terminated header then .invalidSuffix else .missingNewLine)
  | some newline =>
    if newline ≠ [LF] || !(CRLF.isSuffixOf header) then .error .invalidSuffix
    else .ok { header := header, addresses := addresses }

/-- `parse_header` -/
def parseHeader (header : B) : Except ParseError Header :=
  if header.isEmpty then .error .missingPrefix
  else if header.length > MAX_LENGTH then .error .headerTooLong
  else
    match splitN PARTS header with
    | [] => .error .missingPrefix
    | pfx :: rest =>
      if !pfx.isEmpty && pfx.isPrefixOf PROXY && header == pfx then .error .partialHdr
      else if pfx ≠ PROXY then .error .invalidPrefix
      else
        match rest with
        | [] => .error .missingProtocol
        | proto :: rest =>
          if proto = TCP4 then
            match parseAddresses StdNet.parseIpv4 rest (terminated header) with
            | .error e => .error e
            | .ok (sa, da, sp, dp, rest') =>
              finish header (.tcp4 { srcAddr := sa, srcPort := sp, dstAddr := da, dstPort := dp }) rest'
          else if proto = TCP6 then
            match parseAddresses StdNet.parseIpv6 rest (terminated header) with
            | .error e => .error e
            | .ok (sa, da, sp, dp, rest') =>
              finish header (.tcp6 { srcAddr := sa, srcPort := sp, dstAddr := da, dstPort := dp }) rest'
          else if proto = UNKNOWN then
            if CRLF.isSuffixOf header then .ok { header := header, addresses := .unknown }
            else if terminated header then .error .invalidSuffix
            else .error .missingNewLine
          else if proto.isEmpty && rest.isEmpty then .error .missingProtocol
          else if !proto.isEmpty && !(terminated header) && rest.isEmpty &&
              (proto.isPrefixOf TCP4 || proto.isPrefixOf UNKNOWN) then .error .partialHdr
          else .error .invalidProtocol

/-- `impl TryFrom<&[u8]> for v1::Header` -/
def parseBytes (x : B) : Except BinaryParseError Header :=
  match windowLength x with
  | none => .error (.parse .headerTooLong)
  | some n =>
    let w := x.take n
    if !Utf8.valid w then .error .invalidUtf8
    else match parseHeader w with
      | .error e => .error (.parse e)
      | .ok h => .ok h

/-- `impl TryFrom<&str> for v1::Header`, for inputs with `Utf8.valid x`. -/
def parseStr (x : B) : Except ParseError Header :=
  match windowLength x with
  | none => .error .headerTooLong
  | some n =>
    if !Utf8.isCharBoundary x n then .error .invalidSuffix
    else parseHeader (x.take n)

/-- `impl FromStr for Header<'static>` -/
def fromStrHeader (x : B) : Except ParseError Header :=
  match parseStr x with
  | .error e => .error e
  | .ok h => .ok h.toOwned

/-- `impl FromStr for Addresses` -/
def fromStrAddresses (x : B) : Except ParseError Addresses :=
  match parseStr x with
  | .error e => .error e
  | .ok h => .ok h.addresses

/-! ## Panic-aware entry points -/

/-- `&input[..length]` on a `&str` panics unless `length` is a char boundary. -/
def parseStrP (x : B) : Outcome (Except ParseError Header) :=
  match windowLength x with
  | none => .val (.error .headerTooLong)
  | some n =>
    if !Utf8.isCharBoundary x n then .val (.error .invalidSuffix)
    else if n ≤ x.length && Utf8.isCharBoundary x n then .val (parseHeader (x.take n))
    else .panic

def parseBytesP (x : B) : Outcome (Except BinaryParseError Header) :=
  match windowLength x with
  | none => .val (.error (.parse .headerTooLong))
  | some n => do
    let w ← sliceToP x n
    if !Utf8.valid w then return .error .invalidUtf8
    match parseHeader w with
    | .error e => return .error (.parse e)
    | .ok h => return .ok h

/-- Panic-aware `impl FromStr for Header<'static>`: `Ok(Header::try_from(s)?.to_owned())`;
the only partial operation is the one inside `try_from(&str)`. -/
def fromStrHeaderP (x : B) : Outcome (Except ParseError Header) :=
  match parseStrP x with
  | .panic => .panic
  | .val (.error e) => .val (.error e)
  | .val (.ok h) => .val (.ok h.toOwned)

/-- Panic-aware `impl FromStr for Addresses`: `Ok(Header::try_from(s)?.addresses)`. -/
def fromStrAddressesP (x : B) : Outcome (Except ParseError Addresses) :=
  match parseStrP x with
  | .panic => .panic
  | .val (.error e) => .val (.error e)
  | .val (.ok h) => .val (.ok h.addresses)

end V1
