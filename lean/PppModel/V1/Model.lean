import PppModel.Basic
import PppModel.Std.Ipv6
import PppModel.Std.Utf8

/-!
# `src/v1/model.rs`, `src/v1/error.rs`: data model of text headers
-/

namespace V1

/-- `PROTOCOL_PREFIX = "PROXY"` -/
def PROXY : B := [0x50, 0x52, 0x4F, 0x58, 0x59]
/-- `PROTOCOL_SUFFIX = "\r\n"` -/
def CRLF : B := [0x0D, 0x0A]
/-- `TCP4` -/
def TCP4 : B := [0x54, 0x43, 0x50, 0x34]
/-- `TCP6` -/
def TCP6 : B := [0x54, 0x43, 0x50, 0x36]
/-- `UNKNOWN` -/
def UNKNOWN : B := [0x55, 0x4E, 0x4B, 0x4E, 0x4F, 0x57, 0x4E]
/-- `SEPARATOR = ' '` -/
def SP : UInt8 := 0x20
def CR : UInt8 := 0x0D
def LF : UInt8 := 0x0A

inductive Addresses where
  | unknown
  | tcp4 (a : IPv4)
  | tcp6 (a : IPv6)
  deriving DecidableEq

structure Header where
  header : B
  addresses : Addresses
  deriving DecidableEq

/-- `v1::ParseError`; the payloads of the address errors are not modelled
(`AddrParseError` carries only a kind fixed by the type), those of the port
errors are `None` / `Some(kind)`. -/
inductive ParseError where
  | invalidPrefix
  | partialHdr
  | missingPrefix
  | missingNewLine
  | missingProtocol
  | missingSourceAddress
  | missingDestinationAddress
  | missingSourcePort
  | missingDestinationPort
  | headerTooLong
  | invalidProtocol
  | invalidSuffix
  | invalidSourceAddress
  | invalidDestinationAddress
  | invalidSourcePort (k : Option StdInt.IntErrorKind)
  | invalidDestinationPort (k : Option StdInt.IntErrorKind)
  deriving DecidableEq, Repr

/-- `v1::BinaryParseError` -/
inductive BinaryParseError where
  | parse (e : ParseError)
  | invalidUtf8
  deriving DecidableEq, Repr

/-- `impl PartialResult for v1::ParseError` (src/lib.rs) -/
def ParseError.isIncomplete : ParseError → Bool
  | .partialHdr => true
  | .missingPrefix => true
  | .missingProtocol => true
  | .missingSourceAddress => true
  | .missingDestinationAddress => true
  | .missingSourcePort => true
  | .missingDestinationPort => true
  | .missingNewLine => true
  | _ => false

/-- `impl PartialResult for v1::BinaryParseError` -/
def BinaryParseError.isIncomplete : BinaryParseError → Bool
  | .parse e => e.isIncomplete
  | .invalidUtf8 => false

/-- `Addresses::protocol` -/
def Addresses.protocol : Addresses → B
  | .tcp4 _ => TCP4
  | .tcp6 _ => TCP6
  | .unknown => UNKNOWN

def Header.protocol (h : Header) : B := h.addresses.protocol

/-- `Header::addresses_str` -/
def Header.addressesStr (h : Header) : B :=
  let start := PROXY.length + 1 + h.protocol.length
  let end_ := h.header.length - CRLF.length
  let addresses := (h.header.take end_).drop start
  if addresses.head? == some SP then addresses.drop 1 else addresses

/-- Panic-aware `addresses_str`: the subtraction, the slice (a `&str` slice also
requires both ends on character boundaries) and the second slice. -/
def Header.addressesStrP (h : Header) : Outcome B := do
  let start := PROXY.length + 1 + h.protocol.length
  let end_ ← subP h.header.length CRLF.length
  if !(Utf8.isCharBoundary h.header start && Utf8.isCharBoundary h.header end_) then .panic else
  let addresses ← sliceP h.header start end_
  if addresses.head? == some SP then
    if !(Utf8.isCharBoundary addresses 1) then .panic else
    sliceFromP addresses 1
  else pure addresses

/-- `impl Display for Header` -/
def Header.display (h : Header) : B := h.header

/-- `Header::to_owned` (ownership is erased). -/
def Header.toOwned (h : Header) : Header := h

/-- `impl Display for Addresses` -/
def Addresses.format : Addresses → B
  | .unknown => PROXY ++ [SP] ++ UNKNOWN ++ CRLF
  | .tcp4 a =>
    PROXY ++ [SP] ++ TCP4 ++ [SP] ++ StdNet.displayIpv4 a.srcAddr ++ [SP] ++ StdNet.displayIpv4 a.dstAddr ++
      [SP] ++ StdInt.dec a.srcPort.toNat ++ [SP] ++ StdInt.dec a.dstPort.toNat ++ CRLF
  | .tcp6 a =>
    PROXY ++ [SP] ++ TCP6 ++ [SP] ++ StdNet.displayIpv6 a.srcAddr ++ [SP] ++ StdNet.displayIpv6 a.dstAddr ++
      [SP] ++ StdInt.dec a.srcPort.toNat ++ [SP] ++ StdInt.dec a.dstPort.toNat ++ CRLF

/-- `Addresses::new_tcp4` -/
def Addresses.newTcp4 (sa da : Ip4) (sp dp : UInt16) : Addresses :=
  .tcp4 { srcAddr := sa, srcPort := sp, dstAddr := da, dstPort := dp }

/-- `Addresses::new_tcp6` -/
def Addresses.newTcp6 (sa da : Ip6) (sp dp : UInt16) : Addresses :=
  .tcp6 { srcAddr := sa, srcPort := sp, dstAddr := da, dstPort := dp }

end V1
