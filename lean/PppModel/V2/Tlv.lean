import PppModel.V2.Model

/-!
# `TypeLengthValues` iterator (`src/v2/model.rs:234-265`)
-/

namespace V2

/-- `TypeLengthValues { bytes, offset }` -/
structure Iter where
  bytes : B
  offset : Nat
  deriving DecidableEq, Repr

abbrev Item := Except ParseError Tlv

/-- `impl From<&[u8]> for TypeLengthValues` -/
def Iter.ofBytes (bs : B) : Iter := { bytes := bs, offset := 0 }

/-- `Iterator::next` -/
def Iter.next (it : Iter) : Option (Item × Iter) :=
  if it.offset ≥ it.bytes.length then none
  else
    let remaining := it.bytes.drop it.offset
    if remaining.length < minTlvLen then
      some (.error (.leftovers it.bytes.length), { it with offset := it.bytes.length })
    else
      let tlvType := byteAt remaining 0
      let length := be16 (byteAt remaining 1) (byteAt remaining 2)
      let tlvLength := minTlvLen + length
      if remaining.length < tlvLength then
        some (.error (.invalidTLV tlvType length), { it with offset := it.bytes.length })
      else
        some (.ok { kind := tlvType, value := (remaining.take tlvLength).drop minTlvLen },
              { it with offset := it.offset + tlvLength })

/-- Panic-aware `next`. -/
def Iter.nextP (it : Iter) : Outcome (Option (Item × Iter)) :=
  if it.offset ≥ it.bytes.length then .val none
  else do
    let remaining ← sliceFromP it.bytes it.offset
    if remaining.length < minTlvLen then
      return some (.error (.leftovers it.bytes.length), { it with offset := it.bytes.length })
    let tlvType ← idxP remaining 0
    let hi ← idxP remaining 1
    let lo ← idxP remaining 2
    let length := be16 hi lo
    let tlvLength := minTlvLen + length
    if remaining.length < tlvLength then
      return some (.error (.invalidTLV tlvType length), { it with offset := it.bytes.length })
    let value ← sliceP remaining minTlvLen tlvLength
    return some (.ok { kind := tlvType, value := value },
                 { it with offset := it.offset + tlvLength })

/-- Run the iterator for at most `fuel` steps. `collect` supplies enough fuel
(`bytes.length + 1`); theorem `C11.collect_fuel_irrelevant` shows more fuel
never changes the result. -/
def Iter.run : Nat → Iter → List Item
  | 0, _ => []
  | fuel + 1, it =>
    match it.next with
    | none => []
    | some (item, it') => item :: Iter.run fuel it'

/-- `iter.collect::<Vec<_>>()` -/
def Iter.collect (it : Iter) : List Item := Iter.run (it.bytes.length + 1) it

/-- `TypeLengthValues::from(bs).collect()` -/
def tlvCollect (bs : B) : List Item := (Iter.ofBytes bs).collect

/-- `Header::tlvs().collect()` -/
def Header.tlvs (h : Header) : List Item := tlvCollect h.tlvBytes

/-- `TypeLengthValues::len` : `self.bytes.len() as u16` -/
def Iter.len (it : Iter) : Nat := it.bytes.length % 65536

def Iter.isEmpty (it : Iter) : Bool := it.bytes.isEmpty

/-- Fuelled iteration through the panic-aware `nextP`: the `for item in tlvs` loop with a
step cap, panicking as soon as one `next` call would. -/
def Iter.runP : Nat → Iter → Outcome (List Item)
  | 0, _ => .val []
  | fuel + 1, it =>
    match it.nextP with
    | .panic => .panic
    | .val none => .val []
    | .val (some (item, it')) =>
      match Iter.runP fuel it' with
      | .panic => .panic
      | .val rest => .val (item :: rest)

/-- `k` successful calls of `next` in a row: the state they leave behind, `none` if one of
them returned `None`. -/
def Iter.iterate : Nat → Iter → Option Iter
  | 0, it => some it
  | k + 1, it =>
    match it.next with
    | none => none
    | some (_, it') => Iter.iterate k it'

/-- `Iterator::next` as a state transformer: the item (if any) **and the state left behind
in every case**, transcribed branch by branch from `src/v2/model.rs:237-264`. On the
`None` path the Rust returns before touching `self.offset`, so the state is unchanged;
on the two error paths `self.offset = self.bytes.len()`; on the item path
`self.offset += tlv_length`. (`Iter.next` has no successor state on `none`; this function
makes "polling again after `None`" expressible. `C11.step_eq_next` relates the two.) -/
def Iter.step (it : Iter) : Option Item × Iter :=
  if it.offset ≥ it.bytes.length then (none, it)
  else
    let remaining := it.bytes.drop it.offset
    if remaining.length < minTlvLen then
      (some (.error (.leftovers it.bytes.length)), { it with offset := it.bytes.length })
    else
      let tlvType := byteAt remaining 0
      let length := be16 (byteAt remaining 1) (byteAt remaining 2)
      let tlvLength := minTlvLen + length
      if remaining.length < tlvLength then
        (some (.error (.invalidTLV tlvType length)), { it with offset := it.bytes.length })
      else
        (some (.ok { kind := tlvType, value := (remaining.take tlvLength).drop minTlvLen }),
         { it with offset := it.offset + tlvLength })

/-- Poll `k` times, keeping the state after every call (also after `None`). -/
def Iter.poll : Nat → Iter → List (Option Item) × Iter
  | 0, it => ([], it)
  | k + 1, it =>
    let (i, it') := it.step
    let (is, it'') := Iter.poll k it'
    (i :: is, it'')

end V2
