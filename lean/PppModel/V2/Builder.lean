import PppModel.V2.Model

/-!
# `src/v2/builder.rs`: `Writer`, `WriteToHeader`, `Builder`
-/

namespace V2

/-- `(u16::MAX as usize) + MINIMUM_LENGTH` -/
def writerLimit : Nat := 65535 + minLen

/-- `Writer { bytes }`; `io::Error` carries no information the crate's callers
can rely on, so failure is `none`. -/
abbrev Writer := B

/-- `impl Write for Writer :: write` -/
def Writer.write (w : Writer) (buf : B) : Option (Nat × Writer) :=
  if w.length > writerLimit then none else some (buf.length, w ++ buf)

/-- `Write::write_all` (std): loops on `write` until the buffer is empty; an empty
buffer never reaches `write`; `write` consumes everything it is given, so a
non-empty buffer is one call. -/
def Writer.writeAll (w : Writer) (buf : B) : Option Writer :=
  if buf.isEmpty then some w
  else match Writer.write w buf with
    | none => none
    | some (_, w') => some w'

/-- Encoding of the addresses (`impl WriteToHeader for Addresses`), as the list
of chunks handed to `write_all` in order. -/
def Addresses.chunks : Addresses → List B
  | .unspec => []
  | .ipv4 a => [a.srcAddr.octets, a.dstAddr.octets, portBytes a.srcPort, portBytes a.dstPort]
  | .ipv6 a => [a.srcAddr.val, a.dstAddr.val, portBytes a.srcPort, portBytes a.dstPort]
  | .unix a => [a.source.val, a.destination.val]

/-- Everything that implements `WriteToHeader`. Integers are a width in bytes
and the value reduced modulo `2^(8*width)` (two's complement for the signed
types: the harness passes the same bit pattern). -/
inductive Payload where
  | int (width : Nat) (value : Nat)
  | slice (bs : B)
  | addresses (a : Addresses)
  | tlv (kind : UInt8) (value : B)
  | pair (kind : UInt8) (value : B)
  | tlvSection (bs : B)
  | type (t : TlvType)
  deriving DecidableEq

/-- `value.to_be_bytes()` for a `width`-byte integer. -/
def beBytes : Nat → Nat → B
  | 0, _ => []
  | w + 1, v => UInt8.ofNat (v / 256 ^ w) :: beBytes w v

/-- The chunks a payload hands to the writer, or `none` when the value is refused
up front (16-bit length check). -/
def Payload.chunks : Payload → Option (List B)
  | .int w v => some [beBytes w v]
  | .slice bs => if bs.length > 65535 then none else some [bs]
  | .addresses a => some a.chunks
  | .tlv k v => if v.length > 65535 then none else some [[k], be16Bytes v.length, v]
  | .pair k v => if v.length > 65535 then none else some [[k], be16Bytes v.length, v]
  | .tlvSection bs => some [bs]
  | .type t => some [[t.code]]

/-- The reported size on success (the `Ok(n)` each impl returns). -/
def Payload.size : Payload → Nat
  | .int w _ => w
  | .slice bs => bs.length
  | .addresses a => a.len
  | .tlv _ v => minTlvLen + v.length
  | .pair _ v => minTlvLen + v.length
  | .tlvSection bs => bs.length
  | .type _ => 1

/-- `WriteToHeader::write_to`. On failure the writer may have been partly
written (Rust leaves it so); the model returns the writer reached as well, as
`Except Writer (Nat × Writer)`. -/
def Writer.writeChunksE (w : Writer) : List B → Except Writer Writer
  | [] => .ok w
  | c :: cs => match Writer.writeAll w c with
    | none => .error w
    | some w' => Writer.writeChunksE w' cs

def Payload.writeTo (p : Payload) (w : Writer) : Except Writer (Nat × Writer) :=
  match p with
  | .type t =>
    -- `writer.write(..)`, not `write_all`
    match Writer.write w [t.code] with
    | none => .error w
    | some (n, w') => .ok (n, w')
  | p =>
    match p.chunks with
    | none => .error w
    | some cs =>
      match Writer.writeChunksE w cs with
      | .error w' => .error w'
      | .ok w' => .ok (p.size, w')

/-- `WriteToHeader::to_bytes` -/
def Payload.toBytes (p : Payload) : Option B :=
  match p.writeTo [] with
  | .error _ => none
  | .ok (_, w) => some w

/-- `Builder` -/
structure Builder where
  header : Option B
  versionCommand : UInt8
  addressFamilyProtocol : UInt8
  addresses : Addresses
  length : Option Nat
  additionalCapacity : Nat
  deriving DecidableEq

/-- `Builder::new` -/
def Builder.new (vc afp : UInt8) : Builder :=
  { header := none, versionCommand := vc, addressFamilyProtocol := afp,
    addresses := .unspec, length := none, additionalCapacity := 0 }

/-- `Builder::with_addresses` -/
def Builder.withAddresses (vc : UInt8) (t : Transport) (a : Addresses) : Builder :=
  { header := none, versionCommand := vc, addressFamilyProtocol := afpByte a.family t,
    addresses := a, length := none, additionalCapacity := 0 }

inductive Op where
  | reserve (n : Nat)
  | setLength (l : Option Nat)
  | writePayload (p : Payload)
  | writePayloads (ps : List Payload)
  | writeTlv (kind : UInt8) (value : B)
  deriving DecidableEq

/-- `Builder::write_header` -/
def Builder.writeHeader (b : Builder) : Option Builder :=
  match b.header with
  | some _ => some b
  | none =>
    let length := b.length.getD 0
    let header := sig ++ [b.versionCommand, b.addressFamilyProtocol] ++ be16Bytes length
    match (Payload.addresses b.addresses).writeTo header with
    | .error _ => none
    | .ok (_, w) => some { b with header := some w }

/-- `Builder::write_internal` -/
def Builder.writeInternal (b : Builder) (p : Payload) : Option Builder :=
  match p.writeTo (b.header.getD []) with
  | .error _ => none
  | .ok (_, w) => some { b with header := some w }

def writeMany (w : Writer) : List Payload → Option Writer
  | [] => some w
  | p :: ps => match p.writeTo w with
    | .error _ => none
    | .ok (_, w') => writeMany w' ps

/-- One builder call; `none` = the call returned `Err` (the builder is consumed). -/
def Builder.step (b : Builder) : Op → Option Builder
  | .reserve n =>
    match b.header with
    | none => some { b with additionalCapacity := b.additionalCapacity + n }
    | some _ => some b
  | .setLength l => some { b with length := l }
  | .writePayload p =>
    match b.writeHeader with
    | none => none
    | some b' => b'.writeInternal p
  | .writePayloads ps =>
    match b.writeHeader with
    | none => none
    | some b' =>
      match writeMany (b'.header.getD []) ps with
      | none => none
      | some w => some { b' with header := some w }
  | .writeTlv k v =>
    match b.writeHeader with
    | none => none
    | some b' => b'.writeInternal (.tlv k v)

/-- `Builder::build` (after the D7 repair: an explicit length is written into the
field at build time). -/
def Builder.build (b : Builder) : Option B :=
  match b.writeHeader with
  | none => none
  | some b' =>
    let header := b'.header.getD []
    match b'.length with
    | some l => some (header.take 14 ++ be16Bytes l ++ header.drop 16)
    | none =>
      let payloadLength := (header.drop minLen).length
      if payloadLength ≤ 65535 then
        some (header.take 14 ++ be16Bytes payloadLength ++ header.drop 16)
      else none

/-- Panic-aware `build`: `header[MINIMUM_LENGTH..]` and `header[LENGTH..LENGTH + 2]` panic on a
buffer shorter than 16 bytes (theorem `V2.buildP_eq`: no reachable state has one). -/
def Builder.buildP (b : Builder) : Outcome (Option B) :=
  match b.writeHeader with
  | none => .val none
  | some b' =>
    let header := b'.header.getD []
    if header.length < minLen then .panic else .val b.build

/-- A whole call history: the index of the failing call, or the built bytes. -/
def Builder.runFrom (b : Builder) : List Op → Option Builder
  | [] => some b
  | op :: ops => match b.step op with
    | none => none
    | some b' => Builder.runFrom b' ops

def Builder.run (b : Builder) (ops : List Op) : Option B :=
  match Builder.runFrom b ops with
  | none => none
  | some b' => b'.build

/-! ## integer payloads: the type → width table and two's complement

`impl_write_to_header!(u8 … isize)`: each integer type writes `self.to_be_bytes()`. -/

/-- The integer types that implement `WriteToHeader`. -/
inductive IntTy where
  | u8 | u16 | u32 | u64 | u128 | usize
  | i8 | i16 | i32 | i64 | i128 | isize
  deriving DecidableEq, Repr

/-- `size_of::<T>()`: the natural width in bytes. `usize`/`isize` are 8 bytes: the
model is of a 64-bit target (**assumption A4**). -/
def IntTy.width : IntTy → Nat
  | .u8 => 1 | .u16 => 2 | .u32 => 4 | .u64 => 8 | .u128 => 16 | .usize => 8
  | .i8 => 1 | .i16 => 2 | .i32 => 4 | .i64 => 8 | .i128 => 16 | .isize => 8

/-- Whether the type is a signed one. -/
def IntTy.signed : IntTy → Bool
  | .u8 | .u16 | .u32 | .u64 | .u128 | .usize => false
  | .i8 | .i16 | .i32 | .i64 | .i128 | .isize => true

/-- `T::MIN ≤ i ≤ T::MAX`. -/
def IntTy.inRange (t : IntTy) (i : Int) : Bool :=
  if t.signed then
    decide (-(((256 ^ t.width / 2 : Nat) : Int)) ≤ i ∧ i < ((256 ^ t.width / 2 : Nat) : Int))
  else
    decide (0 ≤ i ∧ i < ((256 ^ t.width : Nat) : Int))

/-- The bit pattern of `i` as a `w`-byte two's-complement number: `i mod 256^w`. -/
def twos (w : Nat) (i : Int) : Nat := (i % ((256 ^ w : Nat) : Int)).toNat

/-- A Rust integer value of type `t` as a payload: its natural width and its
two's-complement bit pattern. -/
def Payload.ofInt (t : IntTy) (i : Int) : Payload := .int t.width (twos t.width i)

end V2
