import PppModel.V2.Model

/-!
# `src/v2/mod.rs`: the binary parser, stage by stage
-/

namespace V2

/-- `parse_addresses(address_family, bytes)`; `bytes` has exactly `family.size`
bytes on the only call path. -/
def parseAddresses (f : Family) (bytes : B) : Addresses :=
  match f with
  | .unspec => .unspec
  | .ipv4 =>
    .ipv4 {
      srcAddr := ⟨byteAt bytes 0, byteAt bytes 1, byteAt bytes 2, byteAt bytes 3⟩
      dstAddr := ⟨byteAt bytes 4, byteAt bytes 5, byteAt bytes 6, byteAt bytes 7⟩
      srcPort := portOf (byteAt bytes 8) (byteAt bytes 9)
      dstPort := portOf (byteAt bytes 10) (byteAt bytes 11) }
  | .ipv6 =>
    .ipv6 {
      srcAddr := FixB.ofList 16 (bytes.take 16)
      dstAddr := FixB.ofList 16 ((bytes.take 32).drop 16)
      srcPort := portOf (byteAt bytes 32) (byteAt bytes 33)
      dstPort := portOf (byteAt bytes 34) (byteAt bytes 35) }
  | .unix =>
    .unix {
      source := FixB.ofList 108 (bytes.take 108)
      destination := FixB.ofList 108 (bytes.drop 108) }

/-- Stage 1 (`src/v2/mod.rs:86-100`): signature / minimum-length gate. -/
def gate (x : B) : Except ParseError Unit :=
  if x.length < sig.length then
    if x.isPrefixOf sig then .error (.incomplete x.length) else .error .badPrefix
  else if x.take 12 ≠ sig then .error .badPrefix
  else if x.length < minLen then .error (.incomplete x.length)
  else .ok ()

def decodeVersion (b : UInt8) : Except ParseError Version :=
  if b &&& 0xF0 = 0x20 then .ok .two else .error (.version (b &&& 0xF0))

def decodeCommand (b : UInt8) : Except ParseError Command :=
  if b &&& 0x0F = 0x00 then .ok .loc
  else if b &&& 0x0F = 0x01 then .ok .proxy
  else .error (.command (b &&& 0x0F))

def decodeFamily (b : UInt8) : Except ParseError Family :=
  if b &&& 0xF0 = 0x00 then .ok .unspec
  else if b &&& 0xF0 = 0x10 then .ok .ipv4
  else if b &&& 0xF0 = 0x20 then .ok .ipv6
  else if b &&& 0xF0 = 0x30 then .ok .unix
  else .error (.addressFamily (b &&& 0xF0))

def decodeTransport (b : UInt8) : Except ParseError Transport :=
  if b &&& 0x0F = 0x00 then .ok .unspec
  else if b &&& 0x0F = 0x01 then .ok .stream
  else if b &&& 0x0F = 0x02 then .ok .dgram
  else .error (.protocol (b &&& 0x0F))

/-- Stage 2 (`src/v2/mod.rs:102-124`): the four nibbles, in source order. -/
def control (vc afp : UInt8) : Except ParseError (Version × Command × Family × Transport) :=
  match decodeVersion vc with
  | .error e => .error e
  | .ok v =>
  match decodeCommand vc with
  | .error e => .error e
  | .ok c =>
  match decodeFamily afp with
  | .error e => .error e
  | .ok f =>
  match decodeTransport afp with
  | .error e => .error e
  | .ok t => .ok (v, c, f, t)

/-- Stage 3 (`src/v2/mod.rs:126-151`): length vs family size vs bytes present. -/
def body (x : B) (v : Version) (c : Command) (f : Family) (t : Transport) :
    Except ParseError Header :=
  let length := be16 (byteAt x 14) (byteAt x 15)
  let size := f.size
  if length < size then .error (.invalidAddresses length size)
  else
    let fullLength := minLen + length
    if x.length < fullLength then .error (.partialHdr (x.length - minLen) length)
    else
      let header := x.take fullLength
      let addresses := parseAddresses f ((header.take (minLen + size)).drop minLen)
      .ok { header := header, version := v, command := c, protocol := t, addresses := addresses }

/-- `impl TryFrom<&[u8]> for v2::Header` -/
def parse (x : B) : Except ParseError Header :=
  match gate x with
  | .error e => .error e
  | .ok () =>
  match control (byteAt x 12) (byteAt x 13) with
  | .error e => .error e
  | .ok (v, c, f, t) => body x v c f t

/-! ## Panic-aware layer -/

def parseAddressesP (f : Family) (bytes : B) : Outcome Addresses :=
  match f with
  | .unspec => .val .unspec
  | .ipv4 => do
    let b0 ← idxP bytes 0; let b1 ← idxP bytes 1; let b2 ← idxP bytes 2; let b3 ← idxP bytes 3
    let b4 ← idxP bytes 4; let b5 ← idxP bytes 5; let b6 ← idxP bytes 6; let b7 ← idxP bytes 7
    let b8 ← idxP bytes 8; let b9 ← idxP bytes 9
    let b10 ← idxP bytes 10; let b11 ← idxP bytes 11
    pure (.ipv4 { srcAddr := ⟨b0, b1, b2, b3⟩, dstAddr := ⟨b4, b5, b6, b7⟩,
                  srcPort := portOf b8 b9, dstPort := portOf b10 b11 })
  | .ipv6 => do
    let s ← sliceToP bytes 16
    let sa ← FixB.ofListP 16 s
    let d ← sliceP bytes 16 32
    let da ← FixB.ofListP 16 d
    let b32 ← idxP bytes 32; let b33 ← idxP bytes 33
    let b34 ← idxP bytes 34; let b35 ← idxP bytes 35
    pure (.ipv6 { srcAddr := sa, dstAddr := da, srcPort := portOf b32 b33, dstPort := portOf b34 b35 })
  | .unix => do
    let s ← sliceToP bytes 108
    let sa ← FixB.ofListP 108 s
    let d ← sliceFromP bytes 108
    let da ← FixB.ofListP 108 d
    pure (.unix { source := sa, destination := da })

def parseP (x : B) : Outcome (Except ParseError Header) :=
  if x.length < sig.length then
    if x.isPrefixOf sig then .val (.error (.incomplete x.length)) else .val (.error .badPrefix)
  else do
    let pre ← sliceToP x 12
    if pre ≠ sig then return .error .badPrefix
    if x.length < minLen then return .error (.incomplete x.length)
    let vc ← idxP x 12
    let afp ← idxP x 13
    match control vc afp with
    | .error e => return .error e
    | .ok (v, c, f, t) =>
      let hi ← idxP x 14
      let lo ← idxP x 15
      let length := be16 hi lo
      let size := f.size
      if length < size then return .error (.invalidAddresses length size)
      let fullLength := minLen + length
      if x.length < fullLength then
        let have_ ← subP x.length minLen
        return .error (.partialHdr have_ length)
      let header ← sliceToP x fullLength
      let ab ← sliceP header minLen (minLen + size)
      let addresses ← parseAddressesP f ab
      return .ok { header := header, version := v, command := c, protocol := t,
                   addresses := addresses }

end V2
