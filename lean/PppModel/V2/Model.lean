import PppModel.Basic

/-!
# `src/v2/model.rs` and `src/v2/error.rs`: data model of binary headers
-/

namespace V2

/-- `PROTOCOL_PREFIX = b"\r\n\r\n\0\r\nQUIT\n"` -/
def sig : B := [0x0D, 0x0A, 0x0D, 0x0A, 0x00, 0x0D, 0x0A, 0x51, 0x55, 0x49, 0x54, 0x0A]

/-- `MINIMUM_LENGTH` -/
def minLen : Nat := 16
/-- `MINIMUM_TLV_LENGTH` -/
def minTlvLen : Nat := 3

inductive Version where
  | two
  deriving DecidableEq, Repr

inductive Command where
  | loc
  | proxy
  deriving DecidableEq, Repr

inductive Family where
  | unspec
  | ipv4
  | ipv6
  | unix
  deriving DecidableEq, Repr

/-- `Protocol` in the crate (transport protocol). -/
inductive Transport where
  | unspec
  | stream
  | dgram
  deriving DecidableEq, Repr

def Version.code : Version → UInt8
  | .two => 0x20

def Command.code : Command → UInt8
  | .loc => 0
  | .proxy => 1

def Family.code : Family → UInt8
  | .unspec => 0x00
  | .ipv4 => 0x10
  | .ipv6 => 0x20
  | .unix => 0x30

def Transport.code : Transport → UInt8
  | .unspec => 0
  | .stream => 1
  | .dgram => 2

/-- `AddressFamily::byte_length` -/
def Family.byteLength : Family → Option Nat
  | .ipv4 => some 12
  | .ipv6 => some 36
  | .unix => some 216
  | .unspec => none

/-- `byte_length().unwrap_or_default()` -/
def Family.size (f : Family) : Nat := f.byteLength.getD 0

/-- `impl From<AddressFamily> for u16` -/
def Family.toU16 (f : Family) : Nat := f.size % 65536

/-- `Unix { source: [u8; 108], destination: [u8; 108] }` -/
structure Unix where
  source : FixB 108
  destination : FixB 108
  deriving DecidableEq

def Unix.new (s d : FixB 108) : Unix := { source := s, destination := d }

inductive Addresses where
  | unspec
  | ipv4 (a : IPv4)
  | ipv6 (a : IPv6)
  | unix (a : Unix)
  deriving DecidableEq

/-- `Addresses::address_family` -/
def Addresses.family : Addresses → Family
  | .unspec => .unspec
  | .ipv4 _ => .ipv4
  | .ipv6 _ => .ipv6
  | .unix _ => .unix

/-- `Addresses::len` -/
def Addresses.len (a : Addresses) : Nat := a.family.size

/-- `Addresses::is_empty` -/
def Addresses.isEmpty (a : Addresses) : Bool := a.family.byteLength.isNone

/-- `v2::ParseError` -/
inductive ParseError where
  | incomplete (n : Nat)
  | badPrefix
  | version (v : UInt8)
  | command (c : UInt8)
  | addressFamily (a : UInt8)
  | protocol (p : UInt8)
  | partialHdr (have_ need : Nat)
  | invalidAddresses (len size : Nat)
  | invalidTLV (t : UInt8) (len : Nat)
  | leftovers (n : Nat)
  deriving DecidableEq, Repr

/-- `impl PartialResult for v2::ParseError` (src/lib.rs) -/
def ParseError.isIncomplete : ParseError → Bool
  | .incomplete _ => true
  | .partialHdr _ _ => true
  | _ => false

structure Header where
  header : B
  version : Version
  command : Command
  protocol : Transport
  addresses : Addresses
  deriving DecidableEq

/-- `Version | Command` and `Command | Version` -/
def vcByte (v : Version) (c : Command) : UInt8 := v.code ||| c.code
/-- `AddressFamily | Protocol` and `Protocol | AddressFamily` -/
def afpByte (f : Family) (t : Transport) : UInt8 := f.code ||| t.code

namespace Header

/-- `Header::length`: `self.header[MINIMUM_LENGTH..].len()` -/
def length (h : Header) : Nat := (h.header.drop minLen).length

/-- `Header::len` -/
def len (h : Header) : Nat := h.header.length

def isEmpty (h : Header) : Bool := h.header.isEmpty

/-- `Header::address_family` -/
def addressFamily (h : Header) : Family := h.addresses.family

/-- `Header::address_bytes_end` -/
def addressBytesEnd (h : Header) : Nat :=
  let length := h.length
  let addressBytes := h.addressFamily.byteLength.getD length
  minLen + min addressBytes length

/-- `Header::address_bytes`: `&self.header[MINIMUM_LENGTH..self.address_bytes_end()]` -/
def addressBytes (h : Header) : B := (h.header.take h.addressBytesEnd).drop minLen

/-- `Header::tlv_bytes`: `&self.header[self.address_bytes_end()..]` -/
def tlvBytes (h : Header) : B := h.header.drop h.addressBytesEnd

/-- `Header::to_owned`: ownership is erased in the model. -/
def toOwned (h : Header) : Header := h

def asBytes (h : Header) : B := h.header

/-- Panic-aware `length`. -/
def lengthP (h : Header) : Outcome Nat := do
  let s ← sliceFromP h.header minLen
  pure s.length

def addressBytesEndP (h : Header) : Outcome Nat := do
  let length ← h.lengthP
  let addressBytes := h.addressFamily.byteLength.getD length
  pure (minLen + min addressBytes length)

def addressBytesP (h : Header) : Outcome B := do
  let e ← h.addressBytesEndP
  sliceP h.header minLen e

def tlvBytesP (h : Header) : Outcome B := do
  let e ← h.addressBytesEndP
  sliceFromP h.header e

end Header

/-- Upper-case hexadecimal digits of `n`, most significant first (`{:X}`). -/
def hexDigit (d : Nat) : UInt8 :=
  if d < 10 then UInt8.ofNat (48 + d) else UInt8.ofNat (55 + d)

def hexUpper (n : Nat) : B :=
  if n < 16 then [hexDigit n] else [hexDigit (n / 16), hexDigit (n % 16)]

/-- Decimal digits of `n` (`{}` on an unsigned integer). -/
def decDigits : Nat → B
  | n => if n < 10 then [UInt8.ofNat (48 + n)] else decDigits (n / 10) ++ [UInt8.ofNat (48 + n % 10)]
decreasing_by omega

/-- `{:?}` of `PROTOCOL_PREFIX` : `[13, 10, 13, 10, 0, 13, 10, 81, 85, 73, 84, 10]` -/
def sigDebug : B :=
  let items := sig.map (fun b => decDigits b.toNat)
  [0x5B] ++ (List.intercalate [0x2C, 0x20] items) ++ [0x5D]

/-- `impl Display for Header`: `"{:?} {:#X} {:#X} ({} bytes)"`. -/
def Header.display (h : Header) : B :=
  sigDebug ++ [0x20, 0x30, 0x78] ++ hexUpper (vcByte h.version h.command).toNat ++
    [0x20, 0x30, 0x78] ++ hexUpper (afpByte h.addressFamily h.protocol).toNat ++
    [0x20, 0x28] ++ decDigits h.length ++ [0x20, 0x62, 0x79, 0x74, 0x65, 0x73, 0x29]

/-- Panic-aware `impl Display for Header`: the formatter calls `self.length()`, i.e. the
partial slice `self.header[MINIMUM_LENGTH..]` (`src/v2/model.rs:141-151`); everything else
in it (`{:?}` of the prefix, `{:#X}` of two bytes, `{}` of a `usize`) is total. -/
def Header.displayP (h : Header) : Outcome B := do
  let n ← h.lengthP
  pure (sigDebug ++ [0x20, 0x30, 0x78] ++ hexUpper (vcByte h.version h.command).toNat ++
    [0x20, 0x30, 0x78] ++ hexUpper (afpByte h.addressFamily h.protocol).toNat ++
    [0x20, 0x28] ++ decDigits n ++ [0x20, 0x62, 0x79, 0x74, 0x65, 0x73, 0x29])

/-- Registered TLV types (`Type` in the crate). -/
inductive TlvType where
  | alpn | authority | crc32c | noOp | uniqueId
  | ssl | sslVersion | sslCommonName | sslCipher | sslSignatureAlgorithm | sslKeyAlgorithm
  | networkNamespace
  deriving DecidableEq, Repr

/-- `impl From<Type> for u8` (the enum discriminants). -/
def TlvType.code : TlvType → UInt8
  | .alpn => 0x01
  | .authority => 0x02
  | .crc32c => 0x03
  | .noOp => 0x04
  | .uniqueId => 0x05
  | .ssl => 0x20
  | .sslVersion => 0x21
  | .sslCommonName => 0x22
  | .sslCipher => 0x23
  | .sslSignatureAlgorithm => 0x24
  | .sslKeyAlgorithm => 0x25
  | .networkNamespace => 0x30

def TlvType.all : List TlvType :=
  [.alpn, .authority, .crc32c, .noOp, .uniqueId, .ssl, .sslVersion, .sslCommonName,
   .sslCipher, .sslSignatureAlgorithm, .sslKeyAlgorithm, .networkNamespace]

/-- `TypeLengthValue` -/
structure Tlv where
  kind : UInt8
  value : B
  deriving DecidableEq, Repr

def Tlv.toOwned (t : Tlv) : Tlv := t
def Tlv.len (t : Tlv) : Nat := t.value.length
def Tlv.isEmpty (t : Tlv) : Bool := t.value.isEmpty

end V2
